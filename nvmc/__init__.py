"""nvmc - model checking machinery for johannesulf/nautilus (see /verif/DESIGN.md)."""
import os
import sys

# Thread counts are pinned before numpy is imported anywhere (DESIGN.md section 1).
for _k in ('OMP_NUM_THREADS', 'OPENBLAS_NUM_THREADS', 'MKL_NUM_THREADS',
           'NUMEXPR_NUM_THREADS', 'VECLIB_MAXIMUM_THREADS'):
    os.environ.setdefault(_k, '1')

REPO = os.environ.get('NVMC_REPO', '/repo')
if REPO not in sys.path:
    sys.path.insert(0, REPO)

VERIF = os.path.dirname(os.path.dirname(os.path.abspath(__file__)))

import warnings as _w
_w.simplefilter('ignore')
