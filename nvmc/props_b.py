"""C06: a kill at any instant leaves an atomic, loadable checkpoint (Engine B)."""
import json
import os
import pickle
import shutil
import subprocess
import sys

import numpy as np

from . import core, scen, scenarios, smc, VERIF
from . import crashmc as C
from .core import Violation, Inconclusive

SCENARIOS = dict(quick=['gauss', 'wrap_net'],
                 thorough=['gauss', 'wrap_net', 'blob_two_obj', 'two', 'net2_tanh', 'b7_update', 'enlarge25'])


def _mk(d):
    d = dict(d)
    name = d.pop('name')
    seed = d.pop('seed')
    s = scen.Scenario(name, **d)
    s['seed'] = seed
    return s


def _record_job(scn_dict, workdir):
    scn = _mk(scn_dict)
    log, ckdir, rec = C.record(scn, workdir)
    events, n_pwrite = C.parse_log(log, ckdir)
    ops, final = C.annotate(events)
    if len(ops) != len(rec['digests']):
        raise Inconclusive('marker/digest count mismatch: {} ops in the log, {} digests'.format(
            len(ops), len(rec['digests'])))
    # the model must reproduce the real file at the end, byte for byte
    m = C.FsModel(ckdir)
    n_mut = 0
    for ev in events:
        m.apply(ev)
        if C.is_mutation(ev):
            n_mut += 1
    main = 'ck' + scn['ext']
    with open(os.path.join(ckdir, main), 'rb') as f:
        real = f.read()
    img = m.image()
    if img.get(main) != real:
        raise Inconclusive('file-system model does not reproduce the final checkpoint of ' +
                           scn.name)
    leftovers = sorted(set(os.listdir(ckdir)) ^ set(img))
    if leftovers:
        raise Inconclusive('model and real directory differ in entries: {}'.format(leftovers))
    with open(os.path.join(workdir, 'events.pkl'), 'wb') as f:
        pickle.dump(dict(events=events, ops=ops, final=sorted(final), ckdir=ckdir, rec=rec,
                         n_pwrite=n_pwrite), f)
    os.unlink(log)
    return dict(n_events=len(events), n_mut=n_mut, n_ops=len(ops), n_pwrite=n_pwrite,
                kinds=rec['kinds'], n_final=len(final))


def _load(workdir):
    with open(os.path.join(workdir, 'events.pkl'), 'rb') as f:
        return pickle.load(f)


def _allowed(ev, digests):
    """(set of allowed digests, absent_ok, label of the operation in progress)"""
    if ev['op'] is not None:
        j, kind = ev['op']
        prev = digests[j - 1] if j > 0 else None
        return {prev, digests[j]} - {None}, j == 0, (j, kind)
    j = ev['done']
    if j < 0:
        return set(), True, (-1, 'none')
    return {digests[j]}, False, (j, 'idle')


def _crash_shard(scn_dict, workdir, shard, n_shards, tier):
    scn = _mk(scn_dict)
    data = _load(workdir)
    events, digests, ckdir = data['events'], data['rec']['digests'], data['ckdir']
    m = C.FsModel(ckdir)
    viol = {}
    seen = set()
    resumed = set()
    stats = dict(points=0, torn=0, distinct=0, loadable=0, absent=0, resumes=0)
    d = core.scratch_root()
    samples = []

    def check(img, ev, idx, torn=None):
        allowed, absent_ok, (j, kind) = _allowed(ev, digests)
        h = C.image_hash(img)
        key = (h, j)
        if key in seen:
            return
        seen.add(key)
        stats['distinct'] += 1
        where = dict(scenario=scn.name, op=j, op_kind=kind, event=idx, syscall=ev['name'],
                     offset=ev.get('offset'), torn=torn)

        def V(problem, msg):
            sig = 'crash:{}:{}'.format(kind, problem)
            if sig not in viol:
                viol[sig] = Violation('C06', sig, 'scenario {}: a kill right after syscall #{} ({}{}) '
                                      'during checkpoint operation {} ({}) leaves {}'.format(
                                          scn.name, idx, ev['name'],
                                          '' if torn is None else ', torn after {} bytes'.format(torn),
                                          j, kind, msg),
                                      dict(kind='crash', scenario=dict(scn), where=where))
        main = img.get('ck' + scn['ext'])
        if main is None:
            stats['absent'] += 1
            if not absent_ok:
                V('missing', 'no checkpoint file although a first checkpoint had been completed')
            return
        try:
            dg = core.h5_digest_bytes(main)
        except Exception as e:
            V('unreadable', 'a checkpoint that cannot be opened/read ({}: {})'.format(
                type(e).__name__, str(e)[:120]))
            return
        if dg not in allowed:
            V('mixed-state', 'a readable checkpoint whose content is neither the last completed '
              'state nor the one being written')
            return
        stats['loadable'] += 1
        others = tuple(sorted(n for n in img if n != 'ck' + scn['ext']))
        rkey = (dg, others) if tier == 'quick' else (dg, h)
        if rkey in resumed:
            return
        resumed.add(rkey)
        stats['resumes'] += 1
        r = C.try_resume(scn, img, d, steps=1, monitors=False)
        if r is not None:
            V(r[0], 'a checkpoint from which the same script cannot continue ({}; directory holds '
              '{})'.format(r[1], sorted(img)))
        if len(samples) < 2 and ev['op'] is not None:
            samples.append(where)

    try:
        k = 0
        for idx, ev in enumerate(events):
            if C.is_mutation(ev) and ev['kind'] in ('write', 'sendfile') and tier == 'thorough':
                # page-torn variants of multi-page writes
                off = ev.get('offset')
                n = ev['ret']
                ent = m.fds.get((ev['pid'], ev['fd']))
                if ent is not None and n > 0:
                    if off is None:
                        off = ent[1]
                    cuts = [c - off for c in range((off // C.PAGE + 1) * C.PAGE, off + n, C.PAGE)]
                    for cut in cuts:
                        k += 1
                        if k % n_shards != shard:
                            continue
                        snap = pickle.dumps((m.names, m.inodes, m.fds, m.next))
                        m.apply(ev, torn=cut)
                        stats['torn'] += 1
                        check(m.image(), ev, idx, torn=cut)
                        m.names, m.inodes, m.fds, m.next = pickle.loads(snap)
            m.apply(ev)
            if C.is_mutation(ev):
                k += 1
                if k % n_shards != shard:
                    continue
                stats['points'] += 1
                check(m.image(), ev, idx)
    finally:
        shutil.rmtree(d, ignore_errors=True)
    return dict(violations=list(viol.values()), stats=stats, samples=samples)


def _completed_job(scn_dict, workdir, shard, n_shards):
    """step 5: every distinct completed checkpoint is resumed, checked with the C01/C02 state
    monitors, run to completion; the ones a returning run() can leave behind must reproduce the
    uninterrupted result bit for bit"""
    scn = _mk(scn_dict)
    data = _load(workdir)
    events, rec, ckdir = data['events'], data['rec'], data['ckdir']
    final = set(data['final'])
    m = C.FsModel(ckdir)
    viol = {}
    d = core.scratch_root()
    n = 0
    nfinal = 0
    seen = set()
    scen.LOG['on'] = False
    try:
        for idx, ev in enumerate(events):
            m.apply(ev)
            if ev['kind'] == 'marker' and ev['path'].startswith('/nvmc-mark/'):
                j = int(ev['path'].split('/')[2])
                if j % n_shards != shard or rec['digests'][j] in seen:
                    continue
                seen.add(rec['digests'][j])
                img = m.image()
                n += 1
                kind = rec['kinds'][j]

                def V(problem, msg):
                    sig = 'completed:{}:{}'.format(kind, problem)
                    viol.setdefault(sig, Violation('C06', sig, 'scenario {}: checkpoint operation '
                                                   '{} ({}): {}'.format(scn.name, j, kind, msg),
                                                   dict(kind='completed', scenario=dict(scn), op=j)))
                r = C.try_resume(scn, img, d, steps=0, monitors=True)
                if r is not None:
                    V(r[0], r[1])
                    continue
                try:
                    with np.errstate(all='ignore'):
                        s = scn.build(filepath=os.path.join(d, 'ck' + scn['ext']), resume=True)
                        ok = s.run(**scn.run_args())
                        obs, summ = smc.observation(s)
                    from . import monitors as M
                    vs = M.check_partition(s) + M.check_estimators(s)
                    if vs:
                        V('invalid-at-end', vs[0]['signature'] + ': ' + vs[0]['explanation'])
                    if not ok:
                        V('run-not-successful', 'continuation returned False without limits')
                    if j in final:
                        nfinal += 1
                        if obs != rec['observation']:
                            V('result-differs', 'continuing from this checkpoint gives {} instead '
                              'of the uninterrupted {}'.format(summ, rec['summary']))
                except Exception as e:
                    V('continuation-raises:' + type(e).__name__, str(e)[:300])
    finally:
        shutil.rmtree(d, ignore_errors=True)
        scen.LOG['on'] = True
    return dict(violations=list(viol.values()), completed=n, final=nfinal)


def _conform_job(scn_dict, workdir, ordinal, tag):
    """real SIGKILL at the `ordinal`-th pwrite64: the directory really left behind must equal the
    model's image before (or, for a tracer that lets the call complete, after) that syscall"""
    scn = _mk(scn_dict)
    data = _load(workdir)
    events, ckdir0 = data['events'], data['ckdir']
    wd = core.scratch_root()
    try:
        ckdir = os.path.join(wd, 'ck')
        os.makedirs(ckdir)
        spec = json.dumps(dict(scenario=dict(scn), dir=ckdir, out_dir=wd, record=False))
        cmd = ['strace', '-f', '-o', '/dev/null', '-e', 'trace=pwrite64', '-e',
               'inject=pwrite64:signal=KILL:when={}'.format(ordinal), sys.executable, '-m',
               'nvmc.crash_child', spec]
        p = subprocess.run(cmd, env=C.child_env(), cwd=VERIF, capture_output=True, text=True,
                           timeout=1800)
        if 'CHILD-DONE' in p.stdout:
            raise Inconclusive('kill injection at pwrite64 #{} did not kill the child'.format(
                ordinal))
        real = {}
        for n in os.listdir(ckdir):
            with open(os.path.join(ckdir, n), 'rb') as f:
                real[n] = f.read()
    finally:
        shutil.rmtree(wd, ignore_errors=True)
    m = C.FsModel(ckdir0)
    before = None
    after = None
    for ev in events:
        if ev.get('ordinal') == ordinal and ev['name'] == 'pwrite64':
            before = m.image()
            m.apply(ev)
            after = m.image()
            break
        m.apply(ev)
    if before is None:
        raise Inconclusive('pwrite64 ordinal {} not found in the recorded log'.format(ordinal))
    if real != before and real != after:
        raise Inconclusive('CRASH-MODEL-MISMATCH scenario={} pwrite64 #{} ({}): real directory {} vs '
                           'model {}'.format(scn.name, ordinal, tag,
                                             {k: len(v) for k, v in real.items()},
                                             {k: len(v) for k, v in before.items()}))
    return dict(ordinal=ordinal, tag=tag, matched='before' if real == before else 'after')


def _job(kind, *args):
    import warnings
    warnings.simplefilter('ignore')
    return dict(record=_record_job, crash=_crash_shard, completed=_completed_job,
                conform=_conform_job)[kind](*args)


def pick_ordinals(data, n):
    """pwrite64 ordinals for the conformance runs: first and last write of a full write and of an
    incremental update, plus an even spread"""
    events = data['events']
    per_op = {}
    for ev in events:
        if ev['name'] == 'pwrite64' and ev['op'] is not None and ev['ret'] >= 0:
            per_op.setdefault(ev['op'], []).append(ev['ordinal'])
    picks = []
    for kind in ('write', 'write_shell_update'):
        ops = [o for o in per_op if o[1] == kind]
        if ops:
            o = ops[len(ops) // 2]
            picks += [(per_op[o][0], kind + ':first'), (per_op[o][-1], kind + ':last')]
            if len(per_op[o]) > 2:
                picks.append((per_op[o][len(per_op[o]) // 2], kind + ':middle'))
    allo = sorted(x for v in per_op.values() for x in v)
    for i in range(max(n - len(picks), 0)):
        picks.append((allo[(i * 997 + 13) % len(allo)], 'spread'))
    seen = set()
    out = []
    for o, t in picks:
        if o not in seen:
            seen.add(o)
            out.append((o, t))
    return out[:max(n, 6)]


def run(prop, tier):
    timer = core.Timer()
    names = SCENARIOS[tier]
    if os.environ.get('NVMC_ENTRIES'):
        # debugging aid (never set by a registered command)
        names = os.environ['NVMC_ENTRIES'].split(',')
    scns = scenarios.get(names)
    root = core.scratch_root()
    try:
        wds = []
        for s in scns:
            wd = os.path.join(root, s.name)
            os.makedirs(wd)
            wds.append(wd)
        recs = core.pmap(_job, [('record', dict(s), wd) for s, wd in zip(scns, wds)])
        nw = core.n_workers()
        per = max(2, nw // len(scns)) if tier == 'quick' else nw
        jobs = []
        for s, wd in zip(scns, wds):
            for sh in range(per):
                jobs.append(('crash', dict(s), wd, sh, per, tier))
        ncr = len(jobs)
        for s, wd in zip(scns, wds):
            for sh in range(4):
                jobs.append(('completed', dict(s), wd, sh, 4))
        ncomp = len(jobs) - ncr
        n_conf = 4 if tier == 'quick' else 24
        for s, wd in zip(scns, wds):
            for o, tag in pick_ordinals(_load(wd), n_conf):
                jobs.append(('conform', dict(s), wd, o, tag))
        res = core.pmap(_job, jobs)
    finally:
        shutil.rmtree(root, ignore_errors=True)
    crash = res[:ncr]
    comp = res[ncr:ncr + ncomp]
    conf = res[ncr + ncomp:]
    violations = [v for r in crash + comp for v in r['violations']]
    tot = {}
    for r in crash:
        for k, v in r['stats'].items():
            tot[k] = tot.get(k, 0) + v
    cov = dict(
        evaluations=tot['points'] + tot['torn'],
        distinct_nontrivial=tot['distinct'],
        exhaustive=True,
        rule='crash point = every position right after a logged syscall that mutates the checkpoint '
             'directory (open/creat, pwrite64/write, sendfile/copy_file_range, ftruncate, unlink, '
             'rename, close) of a complete recorded run' + (
                 ', plus every 4096-byte page-torn prefix of multi-page writes' if tier == 'thorough'
                 else '') + '; distinct = distinct directory images per operation in progress; '
             'non-trivial = inside or between checkpoint operations of a run that covers first '
             'write, bound insertions, end of exploration and the sampling phase',
        crash_points=tot['points'], torn_points=tot['torn'], distinct_images=tot['distinct'],
        loadable_images=tot['loadable'], absent_images=tot['absent'],
        resumed_and_continued=tot['resumes'],
        runs=[dict(scenario=s.name, syscalls_on_checkpoint_dir=r['n_events'],
                   mutating_syscalls=r['n_mut'], checkpoint_operations=r['n_ops'],
                   full_writes=r['kinds'].count('write'),
                   incremental_updates=r['kinds'].count('write_shell_update'),
                   pwrite64=r['n_pwrite'], loop_final_checkpoints=r['n_final'])
              for s, r in zip(scns, recs)],
        completed_checkpoints_resumed=sum(r['completed'] for r in comp),
        completed_checkpoints_bit_identical=sum(r['final'] for r in comp),
        real_kill_conformance=[dict(ordinal=r['ordinal'], at=r['tag'], model_image=r['matched'])
                               for r in conf],
        traces_validated_against_impl=len(conf) + len(recs),
        samples=[s for r in crash for s in r['samples']][:5] or [dict(note='no sample inside an op')],
        assumptions=['a kill preserves every completed syscall (no power-loss semantics)',
                     'single-process writer: the recorded run has no likelihood/sampler pools of real '
                     'processes', 'in the quick tier the resume-and-continue part of the oracle is run '
                     'once per (logical content, set of left-over file names); the load/digest part '
                     'for every distinct image'],
        level='fault_enumeration')
    return cov, violations, timer()


def replay(prop, path):
    with open(path) as f:
        rep = json.load(f)
    r = rep['replay']
    scn = _mk(r['scenario'])
    root = core.scratch_root()
    try:
        _record_job(dict(scn), root)
        if r['kind'] == 'crash':
            out = _crash_shard(dict(scn), root, 0, 1, rep.get('tier', 'quick'))['violations']
        else:
            out = _completed_job(dict(scn), root, 0, 1)['violations']
    finally:
        shutil.rmtree(root, ignore_errors=True)
    hit = [v for v in out if v['signature'] == rep['signature']]
    for v in hit[:1]:
        print('VIOLATION property={} replay={}'.format(prop, path))
        print(' ', v['signature'], v['explanation'][:500])
    return 1 if hit else 0
