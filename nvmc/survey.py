"""coverage survey of the scenario catalog (not a check): which rare events occur on the default path
    python -m nvmc.survey [names...]"""
import sys
import numpy as np
from . import core, scen, scenarios


def survey(scn):
    from nautilus import Sampler
    from nautilus.bounds import Union
    ev = dict(batches=0, bounds_added=0, bounds_rejected=0, transfers=0, removed=0, splits=0,
              trims=0, max_ell=1, cube_dims=0, nlike_trigger=0, nupd_trigger=0, explored_at=None)
    o_add, o_split, o_trim = Sampler.add_bound, Union.split, Union.trim

    def add_bound(self, *a, **k):
        if len(self.bounds) > 0:
            if self.n_like_iter >= self.n_like_new_bound and not self.n_update_iter >= self.n_update:
                ev['nlike_trigger'] += 1
            else:
                ev['nupd_trigger'] += 1
        r = o_add(self, *a, **k)
        if len(self.bounds) > 1 or not r:
            ev['bounds_added' if r else 'bounds_rejected'] += 1
        if r and len(self.bounds) > 1:
            b = self.bounds[-1]
            ev['max_ell'] = max(ev['max_ell'], len(b.outer_bound.bounds))
            ev['cube_dims'] += int(sum(np.sum(m.dim_cube) for m in b.outer_bound.bounds))
        return r

    def split(self, *a, **k):
        r = o_split(self, *a, **k)
        ev['splits'] += bool(r)
        return r

    def trim(self, *a, **k):
        r = o_trim(self, *a, **k)
        ev['trims'] += bool(r)
        return r
    Sampler.add_bound, Union.split, Union.trim = add_bound, split, trim
    scen.LOG['on'] = False
    try:
        s = scn.build()
        mx = 0
        while ev['batches'] < 500:
            nt = int(np.sum(np.asarray(s.shell_t) < 0)) if len(s.bounds) else 0
            done = s.run(**scn.run_args(), n_like_max=s.n_like + 1)
            ev['batches'] += 1
            ev['transfers'] += max(int(np.sum(np.asarray(s.shell_t) < 0)) - nt, 0)
            mx = max(mx, len(s.bounds))
            if s.explored and ev['explored_at'] is None:
                ev['explored_at'] = ev['batches']
                ev['removed'] = mx - len(s.bounds)
            if done:
                break
    finally:
        Sampler.add_bound, Union.split, Union.trim = o_add, o_split, o_trim
        scen.LOG['on'] = True
    return ev


if __name__ == '__main__':
    names = sys.argv[1:] or list(scenarios.catalog())
    for n in names:
        s = scenarios.get([n])[0]
        e = survey(s)
        print('{:20s} '.format(n) + ' '.join('{}={}'.format(k, v) for k, v in e.items()))
