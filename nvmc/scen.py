"""Scenarios: pure likelihoods, priors, fake pools, the virtual clock and the construction of real
`nautilus.Sampler` objects. Everything here is module level so that live samplers pickle."""
import copy
import functools
import itertools
import os
import pickle

import numpy as np

from . import core
from nautilus import Prior as _Prior

# --------------------------------------------------------------------------------------------
# call log (C10): unit-cube points seen by the prior, arguments seen by the likelihood
# --------------------------------------------------------------------------------------------

LOG = dict(prior=[], like=[], on=True)


def log_reset():
    LOG['prior'] = []
    LOG['like'] = []


# --------------------------------------------------------------------------------------------
# likelihoods: only + - * / sqrt floor where -> scalar and vectorised evaluation bit-identical
# --------------------------------------------------------------------------------------------

def _cols(x):
    x = np.asarray(x)
    return [x[..., i] for i in range(x.shape[-1])]


def _ll_gauss(c, s=0.08, center=0.5):
    t = 0.0
    for ci in c:
        d = (ci - center) / s
        t = t + d * d
    return -0.5 * t


def _ll_gwide(c):
    return _ll_gauss(c, s=0.2)


def _ll_two(c, s=0.05):
    a = 0.0
    b = 0.0
    for i, ci in enumerate(c):
        da = (ci - 0.25) / s
        db = (ci - 0.75) / s
        a = a + da * da
        b = b + db * db
    return np.maximum(-0.5 * a, -0.5 * b - 0.5)


def _ll_ring(c, r0=0.3, w=0.03):
    dx = c[0] - 0.5
    dy = c[1] - 0.5
    r = np.sqrt(dx * dx + dy * dy)
    d = (r - r0) / w
    t = -0.5 * d * d
    for ci in c[2:]:
        e = (ci - 0.5) / 0.2
        t = t - 0.5 * e * e
    return t


def _ll_half(c):
    """-inf half space (x0 < 0.35), linear ramp above it, Gaussian in the other coordinates."""
    t = 25.0 * c[0]
    for ci in c[1:]:
        e = (ci - 0.5) / 0.15
        t = t - 0.5 * e * e
    return np.where(c[0] < 0.35, -np.inf, t)


def _ll_plateau(c):
    """quantised likelihood: many exact ties in log L."""
    t = 0.0
    for ci in c:
        d = (ci - 0.5) / 0.12
        t = t + d * d
    return -0.5 * np.floor(t * 2.0) / 2.0


def _ll_wrap(c, s=0.06):
    """peak at x0 = 0.02 wrapped around the periodic boundary of dimension 0."""
    d0 = c[0] - 0.02
    d0 = np.where(d0 > 0.5, d0 - 1.0, d0)
    t = (d0 / s) * (d0 / s)
    for ci in c[1:]:
        e = (ci - 0.5) / 0.1
        t = t + e * e
    return -0.5 * t


def _ll_funnel(c):
    """funnel: narrow in x1 at small x0, wide at large x0, higher peak in the narrow part - bounds of
    successive likelihood levels are NOT nested (exact arithmetic only: rational scale)"""
    x0 = c[0]
    s = 0.002 + 0.3 * x0 * x0 * x0 * x0
    d0 = (x0 - 0.5) / 0.2
    d1 = (c[1] - 0.5) / s
    t = -0.5 * d0 * d0 - 0.5 * d1 * d1 + 0.01 / s
    for ci in c[2:]:
        e = (ci - 0.5) / 0.2
        t = t - 0.5 * e * e
    return t


def _ll_nuis(c, s=0.05):
    """constrains x0 only; the remaining parameters are nuisance parameters (flat): the outer bound
    of such a problem samples them from the unit range (cube dimensions of the mixture)"""
    d = (c[0] - 0.5) / s
    t = -0.5 * d * d
    for ci in c[1:]:
        t = t + 0.0 * ci
    return t


def _ll_cross(c, w=0.01):
    """two thin stripes hugging the faces x0 = 0 and x1 = 0 (a 'cross' in the corner): the first bound
    is unconstrained along both parameters, later members are thin ellipsoids poking through a face"""
    a = (c[0] - w) / w
    b = (c[1] - w) / w
    t = np.maximum(-0.5 * a * a, -0.5 * b * b)
    for ci in c[2:]:
        e = (ci - 0.5) / 0.2
        t = t - 0.5 * e * e
    return t


def _ll_corr(c, s=0.25, rho=0.98):
    """wide, strongly correlated Gaussian (rho = 0.98) in the first two parameters: its bounding
    ellipsoids are tilted and poke through cube faces although their axis intercepts lie inside"""
    u = (c[0] - 0.5) / s
    v = (c[1] - 0.5) / s
    t = -0.5 * (u * u - 2.0 * rho * u * v + v * v) / (1.0 - rho * rho)
    for ci in c[2:]:
        e = (ci - 0.5) / 0.2
        t = t - 0.5 * e * e
    return t


def _ll_faint(c, s=0.005):
    """one main peak and three much fainter, far-apart peaks of the same width: at some point of the
    exploration the faint peaks share too few live points to be split, their common ellipsoid is
    almost empty and Union.trim() drops it inside NautilusBound.compute (a rarely taken path)"""
    cen = ((0.3, 0.5, 0.0), (0.75, 0.2, -1.4), (0.9, 0.8, -1.4), (0.6, 0.9, -1.4))
    t = None
    for (a, b, amp) in cen:
        u = (c[0] - a) / s
        v = (c[1] - b) / s
        q = amp - 0.5 * (u * u + v * v)
        t = q if t is None else np.maximum(t, q)
    for ci in c[2:]:
        e = (ci - 0.5) / 0.2
        t = t - 0.5 * e * e
    return t


def _ll_const(c):
    return 0.0 * c[0]


LIKES = dict(gauss=_ll_gauss, gwide=_ll_gwide, two=_ll_two, ring=_ll_ring, half=_ll_half, plateau=_ll_plateau,
             wrap=_ll_wrap, const=_ll_const, funnel=_ll_funnel, nuis=_ll_nuis, cross=_ll_cross, corr=_ll_corr, faint=_ll_faint)

BLOB_KINDS = ('none', 'float', 'int', 'two', 'array', 'struct', 'f32')


def blob_dtype_arg(kind):
    """the `blobs_dtype` constructor argument of a blob kind (None = inferred)."""
    if kind == 'struct':
        return [('a', 'f8'), ('tag', 'S4')]
    if kind == 'f32':
        return np.float32
    return None


def _blobs(kind, c):
    """blob tuple (without log L) of the pure likelihood, for column list c."""
    if kind == 'none':
        return ()
    if kind == 'float':
        return (c[0] * 2.0 + c[1],)
    if kind == 'int':
        return (np.floor(c[0] * 1000.0).astype(np.int64),)
    if kind == 'two':
        return (c[0] * 2.0 + c[1], np.floor(c[1] * 1000.0).astype(np.int64))
    if kind == 'array':
        return (np.stack([c[0] + c[1], c[0] - c[1], c[0] * c[1]], axis=-1),)
    if kind == 'struct':
        tag = np.where(c[0] < 0.5, b'lo', b'high')
        return (c[0] * 3.0, tag)
    if kind == 'f32':
        return (c[0] + 0.25 * c[1],)
    raise ValueError(kind)


def pure(name, blob, x):
    """The pure likelihood: x is (d,) or (n, d); returns log L or a tuple (log L, *blobs)."""
    c = _cols(x)
    ll = LIKES[name](c)
    ll = ll + 0.0 * c[0]
    b = _blobs(blob, c)
    if b:
        if np.ndim(ll) == 0:
            b = tuple(bi[()] if isinstance(bi, np.ndarray) and bi.ndim == 0 else bi for bi in b)
        return (ll,) + b
    return ll


def likelihood_array(name, blob, x):
    """user likelihood taking arrays"""
    if LOG['on']:
        LOG['like'].append(np.array(x, copy=True))
    return pure(name, blob, x)


def likelihood_kw(x, name='gauss', blob='float', scale=1.0, shift=0.0):
    """user likelihood with keyword arguments that have DEFAULTS: log L = scale * pure(x) + shift and
    the blob is shifted too (so that a worker that lost the configured kwargs is visible)"""
    if LOG['on']:
        LOG['like'].append(np.array(x, copy=True))
    r = pure(name, blob, x)
    if isinstance(r, tuple):
        return (scale * r[0] + shift,) + tuple(b + shift for b in r[1:])
    return scale * r + shift


def prior_shift(offset, x, power=1):
    """prior function with a positional and a keyword argument (identity for offset=0, power=1)"""
    return (x + offset) ** power


def likelihood_dict(name, blob, keys, d):
    """user likelihood taking dictionaries (keys in order)"""
    x = np.stack([np.asarray(d[k]) for k in keys], axis=-1)
    if LOG['on']:
        LOG['like'].append(np.array(x, copy=True))
    return pure(name, blob, x)


# --------------------------------------------------------------------------------------------
# priors
# --------------------------------------------------------------------------------------------

def prior_identity(x):
    if LOG['on']:
        LOG['prior'].append(np.array(x, copy=True))
    return x


def prior_inplace(x):
    """a prior function that overwrites its argument in place and returns it (still identity in
    value: x -> 2x -> x would not be bit exact, so it flips twice with exact operations)"""
    if LOG['on']:
        LOG['prior'].append(np.array(x, copy=True))
    y = np.array(x, copy=True)
    x[...] = -1.0          # scribble over the caller's array
    return y


def prior_dictfn(keys, x):
    if LOG['on']:
        LOG['prior'].append(np.array(x, copy=True))
    x = np.asarray(x)
    return {k: x[..., i] for i, k in enumerate(keys)}


class LoggingPrior(_Prior):
    """nautilus.Prior that logs the unit-cube points it is asked to transform"""

    def unit_to_physical(self, points):
        if LOG['on']:
            LOG['prior'].append(np.array(points, copy=True))
        return super().unit_to_physical(points)


def prior_class():
    return LoggingPrior


# --------------------------------------------------------------------------------------------
# pools
# --------------------------------------------------------------------------------------------

class FakePool:
    """In-process pool with the semantics of a process pool: every task and every result crosses a
    pickle boundary (NautilusBound._reset_and_sample mutates self), results of `map` come back in
    input order whatever the completion order, which the explorer chooses through `order`
    (a permutation name). `imap_unordered` / `apply_async` exist and yield in COMPLETION order so
    that a change to an unordered primitive would be observable."""

    def __init__(self, size, order='id'):
        self.size = size
        self.order = order
        self.n_map = 0
        self.schedule = {}      # map-call ordinal -> order name (deviations chosen by the explorer)

    def _perm(self, n):
        order = self.schedule.get(self.n_map, self.order)
        idx = list(range(n))
        if order == 'id':
            return idx
        if order == 'rev':
            return idx[::-1]
        if order.startswith('rot'):
            k = int(order[3:]) % max(n, 1)
            return idx[k:] + idx[:k]
        if order.startswith('perm'):
            k = int(order[4:])
            perms = list(itertools.islice(itertools.permutations(idx), k, k + 1))
            return list(perms[0]) if perms else idx
        raise ValueError(order)

    def _run(self, func, items):
        items = list(items)
        perm = self._perm(len(items))
        self.n_map += 1
        done = []
        for i in perm:
            f, a = pickle.loads(pickle.dumps((func, items[i])))
            done.append((i, pickle.loads(pickle.dumps(f(a)))))
        return done

    def map(self, func, iterable):
        done = self._run(func, iterable)
        return [r for i, r in sorted(done, key=lambda t: t[0])]

    def imap(self, func, iterable):
        return iter(self.map(func, iterable))

    def imap_unordered(self, func, iterable):
        return iter([r for i, r in self._run(func, iterable)])

    def apply_async(self, func, args=()):
        raise NotImplementedError('FakePool.apply_async is not part of the documented pool API')

    def __getstate__(self):
        return self.__dict__.copy()


# --------------------------------------------------------------------------------------------
# virtual clock
# --------------------------------------------------------------------------------------------

class VirtualClock:
    """replaces nautilus.sampler.time: advances one tick per call."""

    def __init__(self):
        self.t = 0

    def __call__(self):
        self.t += 1
        return float(self.t)


def install_clock():
    import nautilus.sampler as ns
    clock = VirtualClock()
    ns.time = clock
    return clock


# --------------------------------------------------------------------------------------------
# scenario
# --------------------------------------------------------------------------------------------

DEFAULTS = dict(
    like='gauss', n_dim=2, n_live=40, n_batch=10, n_update=None, n_networks=0,
    nn=dict(hidden_layer_sizes=(6,), max_iter=60), periodic=None, blob='none', vectorized=False,
    prior='identity', pool_l=0, pool_s=0, discard=False, seed=1, f_live=0.05, n_shell=1,
    n_eff=150, file=True, enlarge_per_dim=1.1, n_points_min=6, n_like_new_bound=None,
    split_threshold=100, verbose=False, want=None, want_unmet=None, ext='.h5', pathlib=False, stale_file=False)


class Scenario(dict):
    """A dict of constructor/run options (see DEFAULTS) with a name."""

    def __init__(self, name, **kw):
        d = copy.deepcopy(DEFAULTS)
        for k in kw:
            if k not in d:
                raise KeyError(k)
        d.update(kw)
        d['name'] = name
        d['seed'] = int(d['seed']) + 1000 * core.SEED
        super().__init__(d)

    @property
    def name(self):
        return self['name']

    def run_args(self, **over):
        a = dict(f_live=self['f_live'], n_shell=self['n_shell'], n_eff=self['n_eff'],
                 discard_exploration=self['discard'], verbose=self['verbose'])
        a.update(over)
        return a

    def keys_(self):
        return ['p{}'.format(i) for i in range(self['n_dim'])]

    def sampler_kwargs(self, filepath=None, resume=False):
        s = self
        kw = dict(n_live=s['n_live'], n_update=s['n_update'], enlarge_per_dim=s['enlarge_per_dim'],
                  n_points_min=s['n_points_min'], split_threshold=s['split_threshold'],
                  periodic=None if s['periodic'] is None else np.array(s['periodic']),
                  n_networks=s['n_networks'], neural_network_kwargs=dict(s['nn']),
                  n_batch=s['n_batch'], n_like_new_bound=s['n_like_new_bound'],
                  vectorized=s['vectorized'], seed=s['seed'],
                  blobs_dtype=blob_dtype_arg(s['blob']), filepath=filepath, resume=resume)
        pl = FakePool(s['pool_l']) if s['pool_l'] else None
        ps = FakePool(s['pool_s']) if s['pool_s'] else None
        kw['pool'] = (pl, ps) if (pl is not None or ps is not None) else None
        return kw

    def build(self, filepath=None, resume=False):
        """a real nautilus.Sampler for this scenario"""
        from nautilus import Sampler
        s = self
        if filepath is not None and s['pathlib']:
            import pathlib
            filepath = pathlib.Path(filepath)
        kw = self.sampler_kwargs(filepath, resume)
        keys = self.keys_()
        if s['prior'] == 'identity':
            prior, like = prior_identity, functools.partial(likelihood_array, s['like'], s['blob'])
            kw['n_dim'] = s['n_dim']
        elif s['prior'] == 'inplace':
            prior, like = prior_inplace, functools.partial(likelihood_array, s['like'], s['blob'])
            kw['n_dim'] = s['n_dim']
        elif s['prior'] == 'dictfn':
            prior = functools.partial(prior_dictfn, keys)
            like = functools.partial(likelihood_dict, s['like'], s['blob'], keys)
            kw['n_dim'] = s['n_dim']
            kw['pass_dict'] = True
        elif s['prior'] in ('object', 'object_array'):
            prior = prior_class()()
            for k in keys:
                prior.add_parameter(k, dist=(0.0, 1.0))
            if s['prior'] == 'object':
                like = functools.partial(likelihood_dict, s['like'], s['blob'], keys)
            else:
                like = functools.partial(likelihood_array, s['like'], s['blob'])
                kw['pass_dict'] = False
        else:
            raise ValueError(s['prior'])
        return Sampler(prior, like, **kw)

    def pure(self, x):
        return pure(self['like'], self['blob'], x)

    def resolve(self):
        """coverage-directed choice of the seed: for scenarios that `want` a rare event on their default
        path (`removed`: an empty shell removed at the end of exploration; `removed2`: at least two of them;
        `pending`: at least three transfer candidates still unused when exploration ends; `trim`: a successful
        Union.trim() while a bound is built) the
        seeds seed, seed+1, ... are tried until the event occurs (deterministic; at most 10 | 24 tries, else the base seed is used and the
        evidence says that the event was not met)"""
        if not self['want']:
            return self
        on = LOG['on']
        LOG['on'] = False
        try:
            base = self['seed']
            need = 2 if self['want'] == 'removed2' else 1
            trims = [0]
            if self['want'] == 'trim':
                # a successful Union.trim() inside NautilusBound.compute on the default path
                from nautilus.bounds.union import Union as _U
                _orig = _U.trim

                def _counted(u, *a, **k):
                    r = _orig(u, *a, **k)
                    trims[0] += int(bool(r))
                    return r
                _U.trim = _counted
            for k in range({'removed2': 24, 'trim': 16}.get(self['want'], 10)):
                self['seed'] = base + k
                s = self.build()
                mx = 0
                trims[0] = 0
                while True:
                    done = s.run(**self.run_args(), n_like_max=s.n_like + 1)
                    mx = max(mx, len(s.bounds))
                    if done or s.explored:
                        break
                if self['want'] in ('removed', 'removed2') and mx - len(s.bounds) >= need:
                    self['want'] = None
                    return self
                if self['want'] == 'trim' and trims[0] > 0:
                    self['want'] = None
                    return self
                if self['want'] == 'pending' and s.explored and \
                        int(np.sum(np.asarray(s.shell_t) >= 0)) >= 3:
                    # transfer candidates still unused when exploration ends
                    self['want'] = None
                    return self
            # the event is rare for this configuration and seed range: the scenario is still a valid
            # one (it merely lacks the event); recorded in the evidence, never an error
            self['seed'] = base
            self['want_unmet'] = self['want']
            self['want'] = None
            return self
        finally:
            LOG['on'] = on
            if 'trims' in locals() and '_orig' in locals():
                _U.trim = _orig

    def describe(self):
        d = {k: v for k, v in self.items() if DEFAULTS.get(k, None) != v or k in ('like', 'seed')}
        return d
