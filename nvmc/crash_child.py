"""Child process of Engine B: runs one checkpointed scenario to completion. Run under strace.

Emits marker syscalls so that the syscall log can be cut into checkpoint operations:
    access("/nvmc-begin/<n>/<kind>")   before Sampler.write / Sampler.write_shell_update
    access("/nvmc-mark/<n>")           after it returned
    access("/nvmc-iter/<k>")           at the start of Sampler.add_bound / Sampler.add_samples
and, in record mode, stores the logical digest D_n of the checkpoint after every operation."""
import json
import os
import sys


def main():
    spec = json.loads(sys.argv[1])
    from nvmc import core, scen
    from nautilus import Sampler
    d = dict(spec['scenario'])
    name = d.pop('name')
    seed = d.pop('seed')
    scn = scen.Scenario(name, **d)
    scn['seed'] = seed
    path = os.path.join(spec['dir'], 'ck' + scn['ext'])
    record = spec.get('record', True)
    state = dict(n=0, it=0, digests=[], kinds=[], images=[])
    scen.LOG['on'] = False

    def mark(p):
        try:
            os.access(p, os.F_OK)
        except OSError:
            pass

    def wrap(name_):
        orig = getattr(Sampler, name_)

        def wrapped(self, *a, **k):
            n = state['n']
            mark('/nvmc-begin/{}/{}'.format(n, name_))
            r = orig(self, *a, **k)
            mark('/nvmc-mark/{}'.format(n))
            state['n'] = n + 1
            if record:
                with open(path, 'rb') as f:
                    img = f.read()
                state['digests'].append(core.h5_digest_bytes(img))
                state['kinds'].append(name_)
                if spec.get('keep_images'):
                    with open(os.path.join(spec['out_dir'], 'op{}.h5'.format(n)), 'wb') as f:
                        f.write(img)
            return r
        setattr(Sampler, name_, wrapped)

    def wrap_iter(name_):
        orig = getattr(Sampler, name_)

        def wrapped(self, *a, **k):
            mark('/nvmc-iter/{}/{}'.format(state['it'], name_))
            state['it'] += 1
            return orig(self, *a, **k)
        setattr(Sampler, name_, wrapped)

    wrap('write')
    wrap('write_shell_update')
    wrap_iter('add_bound')
    wrap_iter('add_samples')
    s = scn.build(filepath=path, resume=bool(spec.get('resume', False)))
    ok = s.run(**scn.run_args())
    if record:
        from nvmc import smc
        obs, summ = smc.observation(s)
        with open(os.path.join(spec['out_dir'], 'record.json'), 'w') as f:
            json.dump(dict(digests=state['digests'], kinds=state['kinds'], observation=obs,
                           summary=summ, success=bool(ok)), f)
    print('CHILD-DONE', state['n'])


if __name__ == '__main__':
    main()
