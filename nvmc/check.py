"""Entry point:  cd /verif && /venv/bin/python -m nvmc.check <ID> --tier quick|thorough
                 /venv/bin/python -m nvmc.check <ID> --replay <path>

exit 0 = held on everything explored (possibly KNOWN-FINDING lines)
exit 1 = at least one `VIOLATION property=<id> replay=<path>`
exit 2 = the harness could not decide (nondeterminism, unmodelled syscall, unscripted draw, ...)
"""
import argparse
import importlib
import json
import os
import sys
import traceback

from . import core

REGISTRY = {
    'C01': ('nvmc.props_a', 'model_checking'),
    'C02': ('nvmc.props_a', 'model_checking'),
    'C03': ('nvmc.props_a', 'model_checking'),
    'C05': ('nvmc.props_a', 'model_checking'),
    'C10': ('nvmc.props_a', 'model_checking'),
    'C11': ('nvmc.props_a', 'model_checking'),
    'C12': ('nvmc.props_a', 'model_checking'),
    'C06': ('nvmc.props_b', 'fault_enumeration'),
    'C07': ('nvmc.props_c', 'model_checking'),
    'C09': ('nvmc.props_c', 'model_checking'),
    'C13': ('nvmc.props_c', 'model_checking'),
    'C08': ('nvmc.props_d', 'exploration'),
    'C14': ('nvmc.props_d', 'exploration'),
    'C15': ('nvmc.props_e', 'exploration'),
    'C16': ('nvmc.props_e', 'exploration'),
}


def main(argv=None):
    ap = argparse.ArgumentParser()
    ap.add_argument('prop')
    ap.add_argument('--tier', default=os.environ.get('VERIF_TIER') or 'quick',
                    choices=['quick', 'thorough'])
    ap.add_argument('--replay', default=None)
    args = ap.parse_args(argv)
    prop = args.prop
    if prop not in REGISTRY:
        print('unknown property', prop)
        return 2
    modname, level = REGISTRY[prop]
    mod = importlib.import_module(modname)
    if args.replay:
        return mod.replay(prop, args.replay)
    timer = core.Timer()
    try:
        coverage, violations, wall = mod.run(prop, args.tier)
    except core.Inconclusive as e:
        print('INCONCLUSIVE property={} {}'.format(prop, e))
        return 2
    except Exception:
        traceback.print_exc()
        print('INCONCLUSIVE property={} harness error'.format(prop))
        return 2
    code, n_new, n_known = core.report(prop, violations, args.tier)
    assumptions = coverage.pop('assumptions', [])
    coverage['known_findings_matched'] = n_known
    core.write_evidence(prop, args.tier, coverage.pop('level', level), coverage, assumptions,
                        timer(), n_new)
    brief = {k: coverage[k] for k in ('states', 'transitions', 'evaluations', 'distinct_nontrivial',
                                      'traces_validated_against_impl', 'exhaustive') if k in coverage}
    print('property={} tier={} seed={} {} wall={:.1f}s violations={} known={}'.format(
        prop, args.tier, core.SEED, json.dumps(brief), timer(), n_new, n_known))
    return code


if __name__ == '__main__':
    sys.exit(main())
