"""Engine C: operation-history search on real bound objects (C07, C09, C13)."""
import collections
import io
import itertools
import pickle

import numpy as np
from scipy.special import logsumexp

from . import core, scen
from .core import Violation
from .monitors import bound_structure


# --------------------------------------------------------------------------------------------
# generator whose integers() answers are scripted (GMM seeds); everything else is a seeded PCG64
# --------------------------------------------------------------------------------------------

class ScriptedIntRng:
    def __init__(self, seed, answer=0):
        self.gen = np.random.default_rng(seed)
        self.answer = answer
        self.n_int = 0

    def integers(self, *a, **k):
        self.n_int += 1
        return self.answer

    def __getattr__(self, name):
        if name in ('gen', 'answer', 'n_int'):
            raise AttributeError(name)
        return getattr(self.gen, name)


def set_rng(obj, gen, seen=None):
    """point every `rng` attribute reachable from a bound at `gen`"""
    seen = seen if seen is not None else set()
    if id(obj) in seen or not hasattr(obj, '__dict__'):
        return
    seen.add(id(obj))
    for k, v in list(obj.__dict__.items()):
        if k == 'rng':
            obj.__dict__[k] = gen
        elif isinstance(v, list):
            for x in v:
                set_rng(x, gen, seen)
        elif hasattr(v, '__dict__') and type(v).__module__.startswith('nautilus'):
            set_rng(v, gen, seen)


# --------------------------------------------------------------------------------------------
# point-set families
# --------------------------------------------------------------------------------------------

def pointset(family, d, n, seed):
    """deterministic construction points in the unit cube (jittered by VERIF_SEED through seed)"""
    r = np.random.default_rng(1000 + 7919 * seed + 31 * d + sum(map(ord, family)))
    if family == 'blob':
        p = 0.5 + 0.08 * r.normal(size=(n, d))
    elif family == 'elongated':
        p = 0.5 + r.normal(size=(n, d)) * np.array([0.1] + [1e-5] * (d - 1)) if d > 1 else \
            0.5 + 0.1 * r.normal(size=(n, d))
        if d > 1:
            c, s = np.cos(0.6), np.sin(0.6)
            q = p - 0.5
            p = q.copy()
            p[:, 0] = c * q[:, 0] - s * q[:, 1]
            p[:, 1] = s * q[:, 0] + c * q[:, 1]
            p = p + 0.5
    elif family == 'banana':
        t = r.uniform(-1, 1, size=n)
        p = 0.5 + 0.02 * r.normal(size=(n, d))
        p[:, 0] += 0.3 * t
        if d > 1:
            p[:, 1] += 0.25 * t * t - 0.1
    elif family in ('two', 'three', 'four'):
        k = dict(two=2, three=3, four=4)[family]
        centres = np.array([[0.22, 0.25], [0.75, 0.7], [0.25, 0.78], [0.78, 0.22]])[:k]
        lab = np.arange(n) % k
        p = 0.5 + 0.03 * r.normal(size=(n, d))
        for j in range(min(d, 2)):
            p[:, j] = centres[lab, j] + 0.03 * r.normal(size=n)
    elif family == 'face':
        p = 0.5 + 0.1 * r.normal(size=(n, d))
        p[:, 0] = np.abs(0.03 * r.normal(size=n))
    elif family == 'corner':
        p = np.abs(0.04 * r.normal(size=(n, d)))
        p[:, -1] = 1 - p[:, -1] - 1e-12
    elif family == 'tiny':
        p = 0.5 + 1e-9 * r.normal(size=(n, d))
    elif family == 'wrapped':
        p = 0.5 + 0.1 * r.normal(size=(n, d))
        p[:, 0] = (0.03 * r.normal(size=n)) % 1.0
    elif family.startswith('tinyball'):
        # points uniform in a ball of radius 10^-k hugging corner 0 of the cube: log-volumes far below
        # -745 (exp underflows) - realistic for narrow posteriors in many dimensions
        scale = 10.0 ** (-int(family[8:]))
        g = r.normal(size=(n, d))
        g /= np.linalg.norm(g, axis=1)[:, None]
        g *= r.uniform(size=n)[:, None] ** (1.0 / d)
        return (g + 1.5) * scale
    elif family == 'minimal':
        p = 0.5 + 0.1 * r.normal(size=(d + 1, d))
    elif family == 'ringwide':
        # wide ring in the first two parameters, moderately wide in the others: the enclosing
        # ellipsoid is larger than the cube, so the mixture is rebuilt starting from the cube and gets
        # single ellipsoidal dimensions back (the second construction path of the mixture; reached with
        # enlargement 2 - found by a search over ring radius / width / enlargement, see DESIGN 7.6)
        t = r.uniform(0, 2 * np.pi, size=n)
        p = 0.5 + (r.random((n, d)) - 0.5) * 0.5
        p[:, 0] = 0.5 + 0.4 * np.cos(t)
        if d > 1:
            p[:, 1] = 0.5 + 0.4 * np.sin(t)
    elif family == 'slabs':
        # two thin slabs hugging two DIFFERENT faces of the cube, each spanning the full range of the
        # other dimensions: after a split the members are mixtures with different cube/ellipsoid
        # dimension patterns whose ellipsoidal dimension pokes through a face
        p = r.random((n, d))
        lab = np.arange(n) % 2
        for k in range(2):
            p[lab == k, k] = np.abs(r.normal(size=int(np.sum(lab == k)))) * 0.01
    elif family == 'tilted':
        # strongly correlated wide Gaussian (rho = 0.98) restricted to the cube: the bounding ellipsoid
        # pokes through cube faces although its axis intercepts lie inside
        out = np.zeros((0, d))
        while len(out) < n:
            g = r.normal(size=(4 * n, d)) * 0.25
            g[:, 1] = 0.98 * g[:, 0] + np.sqrt(1 - 0.98 ** 2) * g[:, 1]
            q = 0.5 + g
            out = np.vstack([out, q[np.all((q >= 0) & (q < 1), axis=1)]])
        p = out[:n]
    else:
        raise ValueError(family)
    top = np.nextafter(1.0, 0.0)
    return np.clip(p, 0.0, top)


# --------------------------------------------------------------------------------------------
# C13: union explorer
# --------------------------------------------------------------------------------------------

def union_key(u):
    """structural key of a union: EVERY attribute reachable from it (a cache or flag added by a later
    change is included automatically) except the sampling progress (proposal buffer, counters) and the
    generators, which split/trim do not read"""
    return core.digest(u, exclude=('points', 'n_sample', 'n_reject'), deep=('rng',))


def union_key_noblock(u):
    return core.digest(bound_structure(u))


def rows_multiset(list_of_arrays):
    c = collections.Counter()
    for a in list_of_arrays:
        for r in np.asarray(a):
            c[np.ascontiguousarray(r).tobytes()] += 1
    return c


class UnionExplorer:
    """BFS over split/trim histories of a real Union with scripted GMM seeds; sample/log_v/reset are
    evaluated as self-loops in every state. Reference model: list of per-ellipsoid records, updated
    from the observed outcome of each operation."""

    def __init__(self, points, bound_class, n_points_min, enlarge, unit, seeds=(0, 1), depth=4,
                 prop='C13', extra=None, max_states=400):
        self.points = points
        self.bound_class = bound_class
        self.n_points_min = n_points_min
        self.enlarge = enlarge
        self.unit = unit
        self.seeds = seeds
        self.depth = depth
        self.prop = prop
        self.extra = extra          # callback(union, history, trimmed_counter) -> violations
        self.max_states = max_states
        self.viol = {}
        self.transitions = 0
        self.sequences = 0
        self.closed = False
        self.states = 0
        self.samples = []

    def V(self, sig, msg, hist):
        self.viol.setdefault(sig, Violation(self.prop, sig, msg, dict(
            kind='union', history=[list(map(str, h)) for h in hist], bound_class=self.bound_class,
            n_points_min=self.n_points_min, n_points=len(self.points), d=self.points.shape[1],
            enlarge=self.enlarge, unit=self.unit)))

    def build(self):
        from nautilus.bounds import Union, Ellipsoid, UnitCubeEllipsoidMixture
        cls = Ellipsoid if self.bound_class == 'Ellipsoid' else UnitCubeEllipsoidMixture
        rng = ScriptedIntRng(12345)
        return Union.compute(self.points, enlarge_per_dim=self.enlarge,
                             n_points_min=self.n_points_min, unit=self.unit, bound_class=cls,
                             rng=rng)

    def ops(self):
        out = []
        for s in self.seeds:
            out.append(('split', True, s))
            if self.bound_class == 'Ellipsoid':
                out.append(('split', False, s))
        out.append(('trim', 1e3))
        out.append(('trim', 1e-9))
        return out

    def invariants(self, u, hist, trimmed):
        n = len(u.bounds)
        if not (len(u.points_bounds) == n == len(u.log_v_all) == len(u.block)):
            self.V('records-misaligned', 'bounds {}, points_bounds {}, log_v_all {}, block {} after '
                   '{}'.format(n, len(u.points_bounds), len(u.log_v_all), len(u.block), hist), hist)
            return False
        for i in range(n):
            if not np.isclose(float(u.log_v_all[i]), float(u.bounds[i].log_v), rtol=0, atol=1e-12):
                self.V('log_v_all-stale', 'log_v_all[{}]={} but the ellipsoid reports {}'.format(
                    i, float(u.log_v_all[i]), float(u.bounds[i].log_v)), hist)
        have = rows_multiset(u.points_bounds)
        want = rows_multiset([self.points])
        want.subtract(trimmed)
        want = +want
        if have != want:
            self.V('points-not-conserved', 'the points of all ellipsoids ({} rows) are not the '
                   'construction points minus the trimmed ones ({} rows) after {}'.format(
                       sum(have.values()), sum(want.values()), hist), hist)
        return True

    def loops(self, u, hist):
        """sample / log_v / reset in the current structural state (on a copy)"""
        c = pickle.loads(pickle.dumps(u))
        try:
            p1 = c.sample(1)
            p2 = c.sample(250)
            lv = c.log_v
            if len(p1) != 1 or len(p2) != 250:
                self.V('sample-count', 'sample(n) returned {} / {} rows'.format(len(p1), len(p2)),
                       hist)
            pts = np.vstack([p1, p2])
            if not np.all(c.contains(pts)):
                self.V('sample-not-contained', 'sample() returned points the union does not '
                       'contain', hist)
            if self.unit and not np.all((pts >= 0) & (pts < 1)):
                self.V('sample-outside-cube', 'unit-restricted union sampled outside the cube', hist)
            if not np.isfinite(lv):
                self.V('log_v-not-finite', 'log_v={}'.format(lv), hist)
            if not (0 <= c.n_reject <= c.n_sample):
                self.V('counters', 'n_reject={} n_sample={}'.format(c.n_reject, c.n_sample), hist)
            k1 = union_key(c)
            c.reset()
            if union_key(c) != k1 or c.n_sample != 0 or c.n_reject != 0 or len(c.points) != 0:
                self.V('reset', 'reset() changed the structure or left sampling progress', hist)
            if union_key(c) != union_key(u):
                self.V('sample-changes-structure', 'sample()/log_v changed the ellipsoid records',
                       hist)
        except Exception as e:
            self.V('raises:loop:' + type(e).__name__, 'sample/log_v/reset raised {}: {} after {}'
                   .format(type(e).__name__, e, hist), hist)
        self.transitions += 4

    def apply(self, u, op, hist, trimmed):
        """one structural operation on a copy; returns (new union, new trimmed) or None"""
        c = pickle.loads(pickle.dumps(u))
        before_n = len(c.bounds)
        before_key = union_key_noblock(c)
        before_sum = float(logsumexp(c.log_v_all))
        before_pts = [np.array(p) for p in c.points_bounds]
        c.sample(3)           # make the caches non-empty so that a missing reset is visible
        h2 = hist + (op,)
        self.transitions += 1
        try:
            if op[0] == 'split':
                c.rng.answer = op[2]
                ok = c.split(allow_overlap=op[1])
            else:
                ok = c.trim(op[1])
        except Exception as e:
            self.V('raises:{}:{}'.format(op[0], type(e).__name__),
                   '{} raised {}: {} after history {}'.format(op, type(e).__name__, e, hist), h2)
            return None
        new_trim = trimmed
        if not self.invariants_after(c, ok, op, before_n, before_key, before_sum, before_pts, h2,
                                     trimmed):
            return None
        if ok and op[0] == 'trim':
            gone = rows_multiset(before_pts)
            gone.subtract(rows_multiset(c.points_bounds))
            new_trim = trimmed + (+gone)
        if not self.invariants(c, h2, new_trim):
            return None
        if self.extra is not None:
            for sig, msg in self.extra(c, h2, new_trim) or ():
                self.V(sig, msg, h2)
        return c, new_trim

    def invariants_after(self, c, ok, op, before_n, before_key, before_sum, before_pts, hist,
                         trimmed):
        n = len(c.bounds)
        if not ok:
            if union_key_noblock(c) != before_key:
                self.V('refused-but-changed', 'refused {} changed ellipsoids or points'.format(op),
                       hist)
                return False
            return True
        if op[0] == 'split':
            if n != before_n + 1:
                self.V('split-count', 'successful split changed the number of ellipsoids {} -> {}'
                       .format(before_n, n), hist)
                return False
            if len(c.points_bounds) >= 2:
                for child in c.points_bounds[-2:]:
                    if len(child) < c.n_points_min:
                        self.V('child-too-small', 'split produced an ellipsoid with {} < '
                               'n_points_min={} points'.format(len(child), c.n_points_min), hist)
            after_sum = float(logsumexp([b.log_v for b in c.bounds]))
            if after_sum > before_sum + 1e-9:
                self.V('volume-increased', 'successful split increased the summed volume: log {} '
                       '-> {}'.format(before_sum, after_sum), hist)
            # reference model: the two children partition exactly one former record
            kids = rows_multiset(c.points_bounds[-2:]) if len(c.points_bounds) >= 2 else None
            if kids is not None and not any(rows_multiset([p]) == kids for p in before_pts):
                self.V('children-not-a-partition', 'the two newest ellipsoids do not partition the '
                       'points of one former ellipsoid', hist)
        else:
            if n != before_n - 1:
                self.V('trim-count', 'successful trim changed the number of ellipsoids {} -> {}'
                       .format(before_n, n), hist)
                return False
        if c.n_sample != 0 or c.n_reject != 0 or len(c.points) != 0:
            self.V('cache-not-reset', 'sampling cache/counters survive a structural change '
                   '(n_sample={}, cached={})'.format(c.n_sample, len(c.points)), hist)
        return True

    def run(self):
        u0 = self.build()
        k0 = union_key(u0)
        seen = {k0}
        frontier = collections.deque([(u0, (), collections.Counter())])
        self.invariants(u0, (), collections.Counter())
        capped = False
        while frontier:
            u, hist, trimmed = frontier.popleft()
            self.loops(u, hist)
            if len(hist) >= self.depth:
                capped = True
                continue
            for op in self.ops():
                self.sequences += 1
                r = self.apply(u, op, hist, trimmed)
                if r is None:
                    continue
                c, tr = r
                k = union_key(c)
                if k in seen:
                    continue
                if len(seen) >= self.max_states:
                    capped = True
                    continue
                seen.add(k)
                frontier.append((c, hist + (op,), tr))
                if len(self.samples) < 2 and len(hist) >= 1:
                    self.samples.append(dict(history=[list(map(str, h)) for h in hist + (op,)],
                                             n_ellipsoids=len(c.bounds)))
        self.states = len(seen)
        self.closed = not capped
        return self


# --------------------------------------------------------------------------------------------
# bound zoo for C07 / C09
# --------------------------------------------------------------------------------------------

def nautilus_bound(points_family, d, n_networks, periodic, seed, n=160, pool=None, enlarge=1.1,
                   nn=None):
    """a real NautilusBound computed through the public compute()"""
    from nautilus.bounds import NautilusBound
    r = np.random.default_rng(99 + seed)
    if points_family == 'wrapped':
        pts = r.uniform(size=(n, d))
        dd = pts - 0.5
        dd[:, 0] = ((pts[:, 0] - 0.02 + 0.5) % 1.0) - 0.5
        log_l = -0.5 * np.sum((dd / 0.15) ** 2, axis=1)
    elif points_family == 'two':
        pts = r.uniform(size=(n, d))
        a = -0.5 * np.sum(((pts - 0.25) / 0.1) ** 2, axis=1)
        b = -0.5 * np.sum(((pts - 0.75) / 0.1) ** 2, axis=1)
        log_l = np.maximum(a, b)
    else:
        pts = r.uniform(size=(n, d))
        log_l = -0.5 * np.sum(((pts - 0.5) / 0.2) ** 2, axis=1)
    log_l_min = np.sort(log_l)[-n // 3]
    rng = np.random.default_rng(7 + seed)
    kw = dict(hidden_layer_sizes=(6,), max_iter=80)
    if nn:
        kw.update(nn)
    b = NautilusBound.compute(pts, log_l, log_l_min, np.log(0.3), enlarge_per_dim=enlarge,
                              n_points_min=d + 3, split_threshold=1.0, periodic=periodic,
                              n_networks=n_networks, neural_network_kwargs=kw, pool=pool, rng=rng)
    return b, pts, log_l, log_l_min


def h5_roundtrip(bound, rng, update_after=None):
    """write to an in-memory HDF5 group and read back with generator `rng`"""
    import h5py
    cls = type(bound)
    f = h5py.File('nvmc-{}.h5'.format(id(bound)), 'w', driver='core', backing_store=False)
    try:
        g = f.create_group('b')
        bound.write(g)
        if update_after is not None:
            update_after(bound)
            bound.update(g)
        return cls.read(g, rng=rng)
    finally:
        f.close()
