"""Engine E: bounded-exhaustive declaration programs (C15) and float neighbourhoods (C16), each
against a reference interpreter. Deciding step: complete enumeration of a finite space."""
import itertools
import numbers

import numpy as np

from . import core
from .core import Violation

# ============================================================================================
# C15
# ============================================================================================

FREE = {'U': ('uniform', -2.0, 5.0), 'V': ('uniform', 0.0, 1.0), 'N': ('norm', 1.0, 2.0)}
FIXED = {'Fi': 3, 'Ff': 2.5, 'Fn': np.float64(-1.5), 'Fz': 0, 'Fz0': 0.0, 'Fnz': np.float64(0.0)}


def _dist_arg(tok):
    """declaration token -> the `dist` argument given to add_parameter"""
    import scipy.stats
    if tok in FREE:
        kind, a, b = FREE[tok]
        return (a, b) if kind == 'uniform' else scipy.stats.norm(loc=a, scale=b)
    if tok in FIXED:
        return FIXED[tok]
    raise KeyError(tok)


def _ref_ppf(tok, u):
    import scipy.stats
    kind, a, b = FREE[tok]
    if kind == 'uniform':
        return a + (b - a) * u
    return scipy.stats.norm(loc=a, scale=b).ppf(u)


def programs(length, tier):
    """all declaration programs of exactly `length` declarations.
    declaration = (keymode, tok) with keymode in {'k' named, 'a' auto key} and
    tok in free/fixed tokens or ('L', j): link to the key of declaration j < i (chains allowed)."""
    # thorough: the full token alphabet up to length 4, the reduced one at length 5
    reduced = tier == 'quick' or length >= 5
    free = ['U', 'N'] if reduced else ['U', 'V', 'N']
    fixed = ['Ff'] if reduced else ['Fi', 'Ff', 'Fn', 'Fz', 'Fz0']

    def rec(i, prog):
        if i == length:
            yield tuple(prog)
            return
        toks = list(free) + list(fixed) + [('L', j) for j in range(i)]
        if reduced and i == 1:
            toks = toks + ['Fi', 'Fn', 'Fz', 'Fz0', 'Fnz']  # every fixed-number type appears somewhere
        for km in ('k', 'a'):
            for t in toks:
                yield from rec(i + 1, prog + [(km, t)])
    return rec(0, [])


def key_of(prog, i, keys_so_far):
    km, tok = prog[i]
    return 'p{}'.format(i) if km == 'k' else None


class Ref:
    """reference interpreter of a declaration list"""

    def __init__(self):
        self.keys = []
        self.kind = []      # ('free', tok) | ('fixed', value) | ('link', index of ultimate target)

    def declare(self, key, tok):
        if key is None:
            key = 'x_{}'.format(len(self.keys))
        if isinstance(tok, tuple):
            j = tok[1]
            while self.kind[j][0] == 'link':
                j = self.kind[j][1]
            self.kind.append(('link', j))
        elif tok in FREE:
            self.kind.append(('free', tok))
        else:
            self.kind.append(('fixed', FIXED[tok]))
        self.keys.append(key)

    def n_free(self):
        return sum(k[0] == 'free' for k in self.kind)

    def physical(self, u):
        out = np.zeros_like(u)
        j = 0
        for k in self.kind:
            if k[0] == 'free':
                out[..., j] = _ref_ppf(k[1], u[..., j])
                j += 1
        return out

    def dictionary(self, u):
        phys = self.physical(u)
        d = {}
        j = 0
        vals = []
        for k in self.kind:
            if k[0] == 'free':
                vals.append(phys[..., j])
                j += 1
            elif k[0] == 'fixed':
                vals.append(np.ones(u[..., 0].shape) * k[1])
            else:
                vals.append(None)
        for i, k in enumerate(self.kind):
            if k[0] == 'link':
                vals[i] = vals[k[1]]
        return dict(zip(self.keys, vals))


GRID = np.array([0.0, 2.0 ** -30, 0.125, 0.25, 0.5, 0.75, 0.999, 1.0 - 2.0 ** -53])


def _inputs(d):
    """(d,) and (n, d) inputs on a grid including 0 and the value next to 1"""
    n = len(GRID)
    cols = [np.roll(GRID, 3 * j)[::(1 if j % 2 == 0 else -1)] for j in range(d)]
    m = np.stack(cols, axis=-1)
    mono = np.stack([GRID for j in range(d)], axis=-1)
    return [m[2].copy(), m[0].copy(), m[-1].copy(), m, mono]


def _close(a, b):
    a = np.asarray(a, dtype=float)
    b = np.asarray(b, dtype=float)
    if a.shape != b.shape:
        return False
    with np.errstate(all='ignore'):
        same_inf = np.isinf(a) & np.isinf(b) & (np.sign(a) == np.sign(b))
        ok = same_inf | (np.abs(a - b) <= 1e-11 + 1e-9 * np.abs(b))
    return bool(np.all(ok))


def prior_state(p):
    import scipy.stats
    out = []
    for k, d in zip(p.keys, p.dists):
        if hasattr(d, 'isf'):
            out.append((k, 'free', type(d.dist).__name__, tuple(d.args), tuple(sorted(d.kwds.items()))))
        else:
            out.append((k, type(d).__name__, repr(d)))
    return (list(p.keys), len(p.dists), out)


def run_program(prog, malformed=None, observe=False):
    """Executes one declaration program on a real nautilus.Prior against the reference.
    malformed = (position, kind) inserts one malformed declaration before declaration `position`.
    observe=True additionally reads dimensionality() and both transforms after EVERY declaration (a
    prior that is used while it is being built); observe=False declares everything first.
    returns list of (signature, message)."""
    from nautilus import Prior
    out = []
    p = Prior()
    ref = Ref()

    def bad(sig, msg):
        out.append((sig, msg))

    for i in range(len(prog) + 1):
        if malformed is not None and malformed[0] == i:
            kind = malformed[1]
            args = malformed_args(kind, p, ref)
            if args is not None:
                before = prior_state(p)
                collide_ok = kind == 'auto-collides-with-explicit'
                try:
                    p.add_parameter(*args)
                    raised = None
                except (ValueError, TypeError) as e:
                    raised = e
                except Exception as e:
                    raised = e
                    bad('malformed:{}:wrong-exception:{}'.format(kind, type(e).__name__),
                        'malformed declaration {} {} raised {} instead of ValueError/TypeError'
                        .format(kind, args, type(e).__name__))
                if raised is None:
                    if collide_ok and len(set(p.keys)) == len(p.keys) and len(p.keys) == len(
                            p.dists):
                        # accepted with a fresh, unique key: not a collision any more; mirror it
                        ref.keys.append(p.keys[-1])
                        ref.kind.append(('free', 'V'))
                    else:
                        bad('malformed:{}:accepted'.format(kind),
                            'malformed declaration {} add_parameter{} was accepted; keys={}'.format(
                                kind, args, p.keys))
                        return out
                elif prior_state(p) != before:
                    bad('malformed:{}:state-changed'.format(kind),
                        'rejected declaration {} add_parameter{} changed the prior: keys {} -> {}, '
                        '{} dists'.format(kind, args, before[0], p.keys, len(p.dists)))
        if i == len(prog):
            break
        km, tok = prog[i]
        key = 'p{}'.format(i) if km == 'k' else None
        if isinstance(tok, tuple):
            dist = ref.keys[tok[1]]
        else:
            dist = _dist_arg(tok)
        try:
            if key is None:
                p.add_parameter(dist=dist)
            else:
                p.add_parameter(key, dist=dist)
        except Exception as e:
            bad('wellformed-rejected:{}'.format(type(e).__name__),
                'well-formed declaration #{} {} raised {}: {} (keys so far {})'.format(
                    i, prog[i], type(e).__name__, e, p.keys))
            return out
        ref.declare(key, tok)
        if observe and i < len(prog) - 1:
            for sig, msg in compare(p, ref, first_only=True):
                bad('prefix:' + sig, 'after declaration #{} of {}: {}'.format(i, len(prog), msg))
            if out:
                return out
    # ---- behaviour against the reference
    out.extend(compare(p, ref))
    return out


def compare(p, ref, first_only=False):
    """behaviour of the real prior `p` against the reference interpreter `ref`"""
    out = []

    def bad(sig, msg):
        out.append((sig, msg))

    if len(p.keys) != len(ref.keys) or list(p.keys) != list(ref.keys):
        bad('keys-differ', 'keys {} but declared {}'.format(p.keys, ref.keys))
    if len(p.keys) != len(p.dists):
        bad('keys-dists-misaligned', '{} keys, {} dists'.format(len(p.keys), len(p.dists)))
    d = ref.n_free()
    try:
        got_d = p.dimensionality()
    except Exception as e:
        bad('dimensionality-raises:' + type(e).__name__, str(e))
        return out
    if got_d != d:
        bad('dimensionality', 'dimensionality()={} for {} free parameters'.format(got_d, d))
        return out
    if d == 0:
        return out
    for u in (_inputs(d)[:1] if first_only else _inputs(d)):
        try:
            phys = p.unit_to_physical(np.array(u, copy=True))
            dic = p.unit_to_dictionary(np.array(u, copy=True))
        except Exception as e:
            bad('transform-raises:' + type(e).__name__, 'input shape {}: {}'.format(u.shape, e))
            return out
        if np.shape(phys) != u.shape:
            bad('shape', 'unit_to_physical maps shape {} to {}'.format(u.shape, np.shape(phys)))
            continue
        exp = ref.physical(u)
        if not _close(phys, exp):
            bad('ppf', 'unit_to_physical differs from the inverse CDF in declaration order')
        if u.ndim == 2 and np.all(np.diff(u, axis=0) >= 0):
            with np.errstate(all='ignore'):
                if not np.all(np.diff(phys, axis=0) >= 0):
                    bad('monotone', 'a free parameter is not monotone in its unit coordinate')
        expd = ref.dictionary(u)
        if set(dic.keys()) != set(ref.keys) or len(set(ref.keys)) != len(ref.keys):
            bad('dict-keys', 'dictionary keys {} for declared keys {}'.format(
                sorted(dic.keys()), ref.keys))
            continue
        for k in ref.keys:
            if np.shape(dic[k]) != u[..., 0].shape or not _close(dic[k], expd[k]):
                bad('dict-value', 'dictionary entry {} differs from the declaration (shape {} for '
                    'input {})'.format(k, np.shape(dic[k]), u.shape))
                break
    return out


MALFORMED = ['duplicate-key', 'explicit-collides-with-auto', 'auto-collides-with-explicit',
             'self-link-named', 'self-link-auto', 'link-undeclared', 'link-empty-key', 'non-string-key',
             'list-as-dist']


def malformed_args(kind, p, ref):
    """positional arguments (key, dist) of a malformed add_parameter call in the current state, or
    None when the kind is not expressible here"""
    n = len(ref.keys)
    if kind == 'duplicate-key':
        named = [k for k in ref.keys if k.startswith('p')]
        return (named[0], (0.0, 1.0)) if named else None
    if kind == 'explicit-collides-with-auto':
        auto = [k for k in ref.keys if k.startswith('x_')]
        return (auto[0], (0.0, 1.0)) if auto else None
    if kind == 'auto-collides-with-explicit':
        # needs an explicit key named like the next auto key: arranged by run_malformed_auto
        return (None, (0.0, 1.0)) if 'x_{}'.format(n) in ref.keys else None
    if kind == 'self-link-named':
        return ('self', 'self')
    if kind == 'self-link-auto':
        return (None, 'x_{}'.format(n))
    if kind == 'link-undeclared':
        return ('lnk', 'nowhere')
    if kind == 'link-empty-key':
        return ('lnk', '')
    if kind == 'non-string-key':
        return (5, (0.0, 1.0))
    if kind == 'list-as-dist':
        return ('lst', [0.0, 1.0])
    raise KeyError(kind)


def auto_collision_cases(tier):
    """explicit key 'x_k' declared at position j<k, then k-1-j further declarations, then an auto key:
    the auto key generated at position k collides. Enumerated for all j < k <= K."""
    from nautilus import Prior
    out = []
    n = 0
    K = 3 if tier == 'quick' else 5
    for k in range(1, K + 1):
        for j in range(k):
            for filler in (['U'], ['Ff'], ['N']):
                p = Prior()
                ok = True
                for i in range(k):
                    if i == j:
                        p.add_parameter('x_{}'.format(k), dist=(0.0, 1.0))
                    else:
                        p.add_parameter('q{}'.format(i), dist=_dist_arg(filler[0]))
                before = prior_state(p)
                n += 1
                try:
                    p.add_parameter(dist=(0.0, 1.0))
                    raised = None
                except (ValueError, TypeError) as e:
                    raised = e
                except Exception as e:
                    out.append(('malformed:auto-collides-with-explicit:wrong-exception:' +
                                type(e).__name__, 'k={} j={}'.format(k, j)))
                    continue
                if raised is None:
                    if len(set(p.keys)) != len(p.keys):
                        u = np.full(p.dimensionality(), 0.5)
                        out.append(('malformed:auto-collides-with-explicit:accepted',
                                    "add_parameter('x_{k}') at position {j}, then add_parameter() at "
                                    "position {k}: key list {keys} holds 'x_{k}' twice; dictionary "
                                    "has {nd} entries for {nk} declarations".format(
                                        k=k, j=j, keys=p.keys, nk=len(p.keys),
                                        nd=len(p.unit_to_dictionary(u)))))
                elif prior_state(p) != before:
                    out.append(('malformed:auto-collides-with-explicit:state-changed',
                                'k={} j={}: keys {}'.format(k, j, p.keys)))
    return out, n


def _shard_C15(tier, lengths, shard, n_shards):
    viol = {}
    n_prog = 0
    n_mal = 0
    n_obs = 0
    sample = []
    idx = 0
    for L in lengths:
        for prog in programs(L, tier):
            idx += 1
            if idx % n_shards != shard:
                continue
            n_prog += 1
            for sig, msg in run_program(prog):
                viol.setdefault(sig, (msg, dict(program=[list(map(str, d)) for d in prog])))
            if L >= 2:
                n_obs += 1
                for sig, msg in run_program(prog, observe=True):
                    viol.setdefault(sig, (msg, dict(program=[list(map(str, d)) for d in prog],
                                                    observe=True)))
            if len(sample) < 2 and L >= 3:
                sample.append([list(map(str, d)) for d in prog])
            # every malformed declaration at every position (programs one shorter than the bound)
            if L < max(lengths) and L <= 3:
                for pos in range(L + 1):
                    for kind in MALFORMED:
                        if kind == 'auto-collides-with-explicit':
                            continue
                        n_mal += 1
                        for sig, msg in run_program(prog, malformed=(pos, kind)):
                            viol.setdefault(sig, (msg, dict(
                                program=[list(map(str, d)) for d in prog], malformed=[pos, kind])))
    return dict(viol=viol, n_prog=n_prog, n_mal=n_mal, n_obs=n_obs, sample=sample)


def run_C15(tier):
    timer = core.Timer()
    Lmax = 4 if tier == 'quick' else 5
    lengths = list(range(1, Lmax + 1))
    n_sh = core.n_workers() * 4
    res = core.pmap(_shard_C15, [(tier, lengths, s, n_sh) for s in range(n_sh)])
    viol = {}
    for r in res:
        for sig, v in r['viol'].items():
            viol.setdefault(sig, v)
    ac, n_ac = auto_collision_cases(tier)
    for sig, msg in ac:
        viol.setdefault(sig, (msg, dict(kind='auto-collision')))
    violations = [Violation('C15', sig, msg, rep) for sig, (msg, rep) in sorted(viol.items())]
    n_prog = sum(r['n_prog'] for r in res)
    n_mal = sum(r['n_mal'] for r in res) + n_ac
    n_obs = sum(r['n_obs'] for r in res)
    samples = [s for r in res for s in r['sample']][:4]
    samples.append(dict(malformed_kinds=MALFORMED))
    cov = dict(
        evaluations=n_prog + n_mal + n_obs, distinct_nontrivial=n_prog + n_mal + n_obs,
        exhaustive=True, programs_observed_at_every_prefix=n_obs,
        rule='every declaration program of length 1..{} over {{named|auto key}} x {{uniform range, '
             'scipy norm, fixed number (int/float/numpy scalar), link to each earlier key}} '
             '(distinct by construction; non-trivial: at least one declaration) evaluated on (d,) '
             'and (n,d) grids incl. 0 and 1-2^-53 against a reference interpreter, once declared completely '
             'before use and once with dimensionality()/transforms read after every declaration; plus every '
             'malformed declaration kind at every position of every program of length <= min({}, 3) and all '
             'auto-key collisions with k <= {}'.format(Lmax, Lmax - 1, 3 if tier == 'quick' else 5),
        programs=n_prog, malformed_programs=n_mal, samples=samples,
        assumptions=['distributions limited to uniform ranges and scipy.stats.norm; tuple '
                     'distributions are well-formed pairs',
                     'inverse CDF compared at rtol 1e-9 / atol 1e-11 (the implementation evaluates '
                     'isf(1-u), the reference ppf(u))',
                     'for an auto key that would collide with an explicit key both outcomes that '
                     'keep the key list duplicate-free are accepted: rejection with ValueError, or '
                     'acceptance under a fresh unique key'])
    return cov, violations, timer()


# ============================================================================================
# C16
# ============================================================================================

ULP1 = np.finfo(float).eps          # ulp(1)


def neighbours(v, k):
    """every float within +-k ulps of v, clipped to [0, 1)"""
    out = [v]
    a = v
    b = v
    for _ in range(k):
        a = np.nextafter(a, -np.inf)
        b = np.nextafter(b, np.inf)
        out.append(a)
        out.append(b)
    top = np.nextafter(1.0, 0.0)
    return sorted(set(float(min(max(x, 0.0), top)) for x in out))


def circ(a, b):
    d = np.abs(np.asarray(a) - np.asarray(b))
    return np.minimum(d, 1.0 - d)


def make_shift(periodic, centers):
    from nautilus.bounds.periodic import PhaseShift
    s = PhaseShift()
    s.periodic = np.array(periodic)
    s.centers = np.array(centers, dtype=float)
    return s


def check_transform(centers_1d, k_ulp, viol, stats):
    """for every centre (1 periodic dim embedded in d=2 and d=3 with every non-empty periodic subset)
    and every input in the +-k ulp neighbourhoods of the critical values"""
    grid = [i / 8.0 for i in range(8)]
    for c in centers_1d:
        crit = [0.0, np.nextafter(1.0, 0.0), (c - 0.5) % 1.0, (0.5 - c) % 1.0, c]
        xs = set(grid)
        for v in crit:
            if v >= 1.0:
                v = 0.0
            xs.update(neighbours(v, k_ulp))
        xs = np.array(sorted(xs))
        for d in (2, 3):
            for r in range(1, d + 1):
                for periodic in itertools.combinations(range(d), r):
                    sh = make_shift(list(periodic), [c] * len(periodic))
                    pts = np.empty((len(xs), d))
                    for j in range(d):
                        pts[:, j] = np.roll(xs, 7 * j)
                    for inverse in (False, True):
                        stats['evaluations'] += len(xs)
                        stats['cases'].add((round(float(c), 17), d, periodic, inverse))
                        out = sh.transform(pts, inverse=inverse)
                        inside = (out >= 0) & (out < 1)
                        if not np.all(inside):
                            i, j = np.argwhere(~inside)[0]
                            viol.setdefault('range:output-outside-unit-cube', (
                                'centre {!r}, inverse={}, periodic={}, input {!r} -> {!r}'.format(
                                    float(c), inverse, list(periodic), float(pts[i, j]),
                                    float(out[i, j])),
                                dict(center=float(c), inverse=inverse, periodic=list(periodic),
                                     d=d, x=float(pts[i, j]))))
                        nonp = [j for j in range(d) if j not in periodic]
                        if nonp:
                            # non-periodic coordinates are untouched whatever their value (also
                            # values on or outside the faces of the cube)
                            ext = np.array(pts[:8], copy=True)
                            vals = [1.0, float(np.nextafter(1.0, 2.0)), 1.5, -0.25, 0.0,
                                    float(np.nextafter(1.0, 0.0)), 2.0, -1e-300]
                            for j in nonp:
                                ext[:, j] = vals
                            oext = sh.transform(ext, inverse=inverse)
                            stats['evaluations'] += len(ext)
                            if not np.array_equal(oext[:, nonp], ext[:, nonp]):
                                viol.setdefault('nonperiodic-coordinate-changed', (
                                    'centre {!r} periodic={} inverse={}: non-periodic coordinates {} '
                                    'come back as {}'.format(float(c), list(periodic), inverse,
                                                             ext[:, nonp[0]].tolist(),
                                                             oext[:, nonp[0]].tolist()),
                                    dict(center=float(c), periodic=list(periodic), d=d)))
                        if nonp and not np.array_equal(out[:, nonp], pts[:, nonp]):
                            viol.setdefault('nonperiodic-coordinate-changed', (
                                'centre {!r} periodic={}'.format(float(c), list(periodic)),
                                dict(center=float(c), periodic=list(periodic), d=d)))
                        back = sh.transform(out, inverse=not inverse)
                        dist = circ(back[:, list(periodic)], pts[:, list(periodic)])
                        if np.any(dist > 4 * ULP1):
                            i, j = np.argwhere(dist > 4 * ULP1)[0]
                            viol.setdefault('roundtrip', (
                                'centre {!r}, inverse={}, x={!r}: inverse(forward(x))={!r}'.format(
                                    float(c), inverse, float(pts[i, periodic[j]]),
                                    float(back[i, periodic[j]])),
                                dict(center=float(c), inverse=inverse, periodic=list(periodic),
                                     d=d, x=float(pts[i, periodic[j]]))))


def compute_centres(max_size, viol, stats):
    """PhaseShift.compute on all multisets of size 1..max_size over the coordinate grid; checks the
    gap property and returns the centres found"""
    from nautilus.bounds.periodic import PhaseShift
    vals = [i / 8.0 for i in range(8)] + [float(np.nextafter(0.0, 1.0)),
                                          float(np.nextafter(1.0, 0.0))]
    centres = set()
    for size in range(1, max_size + 1):
        for ms in itertools.combinations_with_replacement(vals, size):
            x = np.array(ms)
            pts = np.stack([x, x[::-1]], axis=-1)
            sh = PhaseShift.compute(pts, np.array([0]))
            stats['multisets'] += 1
            c = float(sh.centers[0])
            centres.add(c)
            if not (0.0 <= c < 1.0):
                viol.setdefault('centre-outside', ('centre {!r} for coordinates {}'.format(c, ms),
                                                   dict(coords=list(ms))))
                continue
            xs = np.sort(x)
            gaps = np.append(np.diff(xs), xs[0] - (xs[-1] - 1))
            gap = float(np.max(gaps))
            out = sh.transform(pts)[:, 0]
            spread = float(np.max(out) - np.min(out))
            if np.any(out >= 1) or np.any(out < 0):
                continue        # reported by the range check with its own signature
            if spread > 1.0 - gap + 4 * ULP1:
                viol.setdefault('gap-not-across-boundary', (
                    'coordinates {} have largest circular gap {!r} but after the shift they span '
                    '{!r} > 1 - gap'.format(ms, gap, spread), dict(coords=list(ms))))
            if not np.array_equal(sh.transform(pts)[:, 1], pts[:, 1]):
                viol.setdefault('nonperiodic-coordinate-changed', ('coords {}'.format(ms),
                                                                   dict(coords=list(ms))))
    return sorted(centres)


def ordered_periodic_sets(viol, stats):
    """PhaseShift.compute / transform with periodic index sets in EVERY order (d = 3, all ordered
    non-empty subsets) on point sets whose coordinates need a different shift in every dimension: per
    periodic dimension the largest gap must lie across the boundary after the shift, non-periodic
    dimensions stay untouched, the round trip closes"""
    from nautilus.bounds.periodic import PhaseShift
    cols = [np.array([0.02, 0.05, 0.93, 0.97, 0.99]),       # wraps around 0/1
            np.array([0.40, 0.45, 0.50, 0.55, 0.60]),       # central
            np.array([0.70, 0.75, 0.80, 0.15, 0.20])]       # gap in the middle
    n = 0
    for rot in range(3):
        pts = np.stack([cols[(j + rot) % 3] for j in range(3)], axis=-1)
        for r in (1, 2, 3):
            for periodic in itertools.permutations(range(3), r):
                n += 1
                sh = PhaseShift.compute(pts, np.array(periodic))
                out = sh.transform(pts)
                back = sh.transform(out, inverse=True)
                for dim in range(3):
                    x = np.sort(pts[:, dim])
                    if dim in periodic:
                        gap = float(np.max(np.append(np.diff(x), x[0] - (x[-1] - 1))))
                        spread = float(np.max(out[:, dim]) - np.min(out[:, dim]))
                        if spread > 1.0 - gap + 4 * ULP1:
                            viol.setdefault('gap-not-across-boundary:ordered-periodic', (
                                'periodic={} (this order): after the shift dimension {} spans {!r} '
                                'although its largest circular gap is {!r}'.format(
                                    list(periodic), dim, spread, gap),
                                dict(kind='ordered', periodic=list(periodic), rot=rot)))
                        if np.any(circ(back[:, dim], pts[:, dim]) > 4 * ULP1):
                            viol.setdefault('roundtrip:ordered-periodic', (
                                'periodic={}: inverse(forward(x)) != x in dimension {}'.format(
                                    list(periodic), dim), dict(kind='ordered',
                                                               periodic=list(periodic), rot=rot)))
                    elif not np.array_equal(out[:, dim], pts[:, dim]):
                        viol.setdefault('nonperiodic-coordinate-changed', (
                            'periodic={}: dimension {} changed'.format(list(periodic), dim),
                            dict(kind='ordered', periodic=list(periodic), rot=rot)))
                if np.any(out < 0) or np.any(out >= 1):
                    viol.setdefault('range:output-outside-unit-cube', (
                        'periodic={} ordered-set case'.format(list(periodic)),
                        dict(kind='ordered', periodic=list(periodic), rot=rot)))
    stats['evaluations'] += n * 5
    stats['ordered_sets'] = n
    return n


def _shard_C16(tier, shard, n_shards):
    viol = {}
    stats = dict(evaluations=0, multisets=0, cases=set())
    k = 8 if tier == 'quick' else 256
    centres = [i / 64.0 for i in range(64)]
    if shard == 0:
        ordered_periodic_sets(viol, stats)
        cc = compute_centres(4 if tier == 'quick' else 6, viol, stats)
    else:
        cc = compute_centres(3, {}, dict(evaluations=0, multisets=0, cases=set()))
    allc = sorted(set(centres) | set(cc) | {0.3, 0.7, 0.1, 0.9, float(np.nextafter(0.5, 0)),
                                            float(np.nextafter(0.5, 1))})
    mine = [c for i, c in enumerate(allc) if i % n_shards == shard]
    check_transform(mine, k, viol, stats)
    return dict(viol=viol, evaluations=stats['evaluations'], multisets=stats['multisets'],
                cases=len(stats['cases']), centres=len(mine))


def witness_C16(viol):
    """end-to-end witness: a periodic NautilusBound asked (through a scripted generator) to return
    the proposal whose shifted coordinate is the float just below the inverse wrap position must
    return a sample inside [0,1) that it contains()."""
    from .envmc import periodic_witness
    return periodic_witness(viol)


def run_C16(tier):
    timer = core.Timer()
    n_sh = core.n_workers()
    res = core.pmap(_shard_C16, [(tier, s, n_sh) for s in range(n_sh)])
    viol = {}
    for r in res:
        for sig, v in r['viol'].items():
            viol.setdefault(sig, v)
    n_w = 0
    try:
        n_w = witness_C16(viol)
        from .envmc import periodic_pool_witness
        n_w += periodic_pool_witness(viol)
    except ImportError:
        pass
    violations = [Violation('C16', sig, msg, rep) for sig, (msg, rep) in sorted(viol.items())]
    ev = sum(r['evaluations'] for r in res)
    cov = dict(
        evaluations=ev + res[0]['multisets'] + n_w,
        distinct_nontrivial=sum(r['cases'] for r in res) + res[0]['multisets'],
        exhaustive=True,
        rule='centres {{k/64}} + centres computed by PhaseShift.compute on all multisets of size '
             '1..{} over {{0,1/8,..,7/8, next(0), prev(1)}}; every non-empty periodic index set in '
             'd=2,3; inputs = every float within +-{} ulps of 0, prev(1), the forward and inverse '
             'wrap positions and the centre, plus the 1/8 grid; both directions; plus all 45 ORDERED '
             'periodic index sets of d=3 on point sets needing a different shift per dimension. A case is one '
             '(centre, d, periodic set, direction) tuple; distinct by construction.'.format(
                 4 if tier == 'quick' else 6, 8 if tier == 'quick' else 256),
        multisets=res[0]['multisets'], centres=sum(r['centres'] for r in res),
        end_to_end_witness_executions=n_w,
        samples=[dict(center=0.3, inverse=True, x=float(np.nextafter(0.2, 0)), d=2, periodic=[0]),
                 dict(coords=[0.0, 0.125, 0.875], note='multiset given to PhaseShift.compute')],
        assumptions=['inputs lie in [0,1); round trip compared on the circle with 4 ulp(1) '
                     'tolerance', 'dimension 2 and 3; one centre value shared by all periodic '
                     'dimensions of a case'])
    return cov, violations, timer()


# ============================================================================================

def run(prop, tier):
    if prop == 'C15':
        return run_C15(tier)
    return run_C16(tier)


def replay(prop, path):
    import json
    with open(path) as f:
        rep = json.load(f)
    r = rep['replay']
    print('replaying', rep['signature'])
    if prop == 'C15':
        if 'program' in r:
            prog = tuple((a, (b if not b.startswith('(') else eval(b))) for a, b in r['program'])
            mal = tuple(r['malformed']) if 'malformed' in r else None
            res = run_program(prog, malformed=mal, observe=bool(r.get('observe')))
        else:
            res, _ = auto_collision_cases('thorough')
    else:
        viol = {}
        stats = dict(evaluations=0, multisets=0, cases=set())
        if r.get('kind') in ('witness', 'poolwitness'):
            from .envmc import periodic_pool_witness
            witness_C16(viol)
            periodic_pool_witness(viol)
        elif r.get('kind') == 'ordered':
            ordered_periodic_sets(viol, stats)
        elif 'center' in r:
            check_transform([r['center']], 64, viol, stats)
        else:
            compute_centres(5, viol, stats)
        res = [(k, v[0]) for k, v in viol.items()]
    hit = [x for x in res if x[0] == rep['signature']]
    for sig, msg in hit:
        print('VIOLATION property={} replay={}'.format(prop, path))
        print(' ', sig, msg)
    return 1 if hit else 0
