"""Monitors of Engine A. Each takes the transition context and returns a list of Violations.

ctx keys: scn, pre (sampler before), post (sampler after), action, state (pre State), new (post State
or None), ret, exc, out, log_prior, log_like, tally, clock, new_points.
"""
import numpy as np
from scipy.special import logsumexp

from . import core
from .core import Violation

RTOL = 1e-9


def _act(ctx):
    return ctx['action'][0]


def mon_exception(prop):
    """an action of the public API that raises inside the explored domain"""
    def mon(ctx):
        if ctx['exc'] is None:
            return []
        typ, msg, site = ctx['exc']
        return [Violation(prop, 'exception:{}:{}:{}'.format(_act(ctx), typ, site),
                          '{} raised {}: {} at {}\n{}'.format(ctx['action'], typ, msg, site,
                                                              ctx.get('tb', '')[-1200:]))]
    return mon


# --------------------------------------------------------------------------------------------
# C01  M-partition
# --------------------------------------------------------------------------------------------

def check_partition(s, prop='C01', where=''):
    out = []
    nb = len(s.bounds)
    if not (len(s.points) == nb == len(s.log_l)):
        out.append(Violation(prop, 'partition:lengths' + where,
                             'len(points)={} len(log_l)={} len(bounds)={}'.format(
                                 len(s.points), len(s.log_l), nb)))
        return out
    for i in range(nb):
        p = s.points[i]
        if len(p) == 0:
            continue
        if not np.all((p >= 0) & (p < 1)):
            out.append(Violation(prop, 'partition:outside-cube' + where,
                                 'shell {} stores {} point(s) outside [0,1)^d'.format(
                                     i, int(np.sum(~np.all((p >= 0) & (p < 1), axis=1))))))
        own = np.asarray(s.bounds[i].contains(p))
        if not np.all(own):
            out.append(Violation(prop, 'partition:not-in-own-bound' + where,
                                 'shell {}/{}: {} of {} stored points are not inside their own bound'
                                 .format(i, nb, int(np.sum(~own)), len(p))))
        for k in range(i + 1, nb):
            later = np.asarray(s.bounds[k].contains(p))
            if np.any(later):
                out.append(Violation(prop, 'partition:in-later-bound' + where,
                                     'shell {}/{}: {} of {} stored points lie inside later bound {}'
                                     .format(i, nb, int(np.sum(later)), len(p), k)))
                break
        assoc = s.shell_association(p)
        if not np.all(assoc == i):
            out.append(Violation(prop, 'partition:association' + where,
                                 'shell {}: shell_association gives {} for stored points'.format(
                                     i, sorted(set(assoc.tolist())))))
    # pending transfer candidates (only meaningful during exploration)
    if not s.explored and nb > 1 and len(s.shell_t) > 0:
        st = np.asarray(s.shell_t)
        pend = st >= 0
        if np.any(st >= nb - 1):
            out.append(Violation(prop, 'partition:transfer-origin' + where,
                                 'transfer candidate with origin shell >= newest shell'))
        elif np.any(pend):
            pt = np.asarray(s.points_t)[pend]
            if not np.all(s.bounds[-1].contains(pt)):
                out.append(Violation(prop, 'partition:transfer-not-in-newest' + where,
                                     'pending transfer candidates outside the newest bound'))
            for o in set(st[pend].tolist()):
                po = np.asarray(s.points_t)[st == o]
                if not np.all(s.bounds[o].contains(po)):
                    out.append(Violation(prop, 'partition:transfer-not-in-origin' + where,
                                         'pending transfer candidates outside the bound of their '
                                         'origin shell {}'.format(o)))
        if len(s.points_t) != len(st) or len(s.log_l_t) != len(st):
            out.append(Violation(prop, 'partition:transfer-lengths' + where, 'transfer arrays differ '
                                 'in length'))
        # a candidate (pending or transferred) is never also stored in an old shell, and a
        # transferred one is stored exactly once, in the newest shell
        if len(st) > 0:
            allp = {}
            for i in range(nb):
                for r in np.asarray(s.points[i]):
                    allp.setdefault(r.tobytes(), []).append(i)
            for j, r in enumerate(np.asarray(s.points_t)):
                where_ = allp.get(r.tobytes(), [])
                if st[j] >= 0 and where_:
                    out.append(Violation(prop, 'partition:pending-also-stored' + where,
                                         'pending transfer candidate also stored in shell(s) {}'
                                         .format(where_)))
                    break
                if st[j] < 0 and where_ != [nb - 1]:
                    out.append(Violation(prop, 'partition:transferred-misplaced' + where,
                                         'transferred candidate stored in {} instead of exactly once '
                                         'in the newest shell {}'.format(where_, nb - 1)))
                    break
    return out


def mon_partition(ctx):
    if ctx['exc'] is not None or _act(ctx) == 'observe':
        return []
    return check_partition(ctx['post'])
