"""Monitors of Engine A. Each takes the transition context and returns a list of Violations.

ctx keys: scn, pre (sampler before), post (sampler after), action, state (pre State), new (post State
or None), ret, exc, out, log_prior, log_like, tally, clock, new_points.
"""
import numpy as np
from scipy.special import logsumexp

from . import core
from .core import Violation

RTOL = 1e-9


def _act(ctx):
    return ctx['action'][0]


def mon_exception(prop):
    """an action of the public API that raises inside the explored domain"""
    def mon(ctx):
        if ctx['exc'] is None:
            return []
        typ, msg, site = ctx['exc']
        return [Violation(prop, 'exception:{}:{}:{}'.format(_act(ctx), typ, site),
                          '{} raised {}: {} at {}\n{}'.format(ctx['action'], typ, msg, site,
                                                              ctx.get('tb', '')[-1200:]))]
    return mon


# --------------------------------------------------------------------------------------------
# C01  M-partition
# --------------------------------------------------------------------------------------------

def check_partition(s, prop='C01', where=''):
    out = []
    nb = len(s.bounds)
    if not (len(s.points) == nb == len(s.log_l)):
        out.append(Violation(prop, 'partition:lengths' + where,
                             'len(points)={} len(log_l)={} len(bounds)={}'.format(
                                 len(s.points), len(s.log_l), nb)))
        return out
    for i in range(nb):
        p = s.points[i]
        if len(p) == 0:
            continue
        if not np.all((p >= 0) & (p < 1)):
            out.append(Violation(prop, 'partition:outside-cube' + where,
                                 'shell {} stores {} point(s) outside [0,1)^d'.format(
                                     i, int(np.sum(~np.all((p >= 0) & (p < 1), axis=1))))))
        own = np.asarray(s.bounds[i].contains(p))
        if not np.all(own):
            out.append(Violation(prop, 'partition:not-in-own-bound' + where,
                                 'shell {}/{}: {} of {} stored points are not inside their own bound'
                                 .format(i, nb, int(np.sum(~own)), len(p))))
        for k in range(i + 1, nb):
            later = np.asarray(s.bounds[k].contains(p))
            if np.any(later):
                out.append(Violation(prop, 'partition:in-later-bound' + where,
                                     'shell {}/{}: {} of {} stored points lie inside later bound {}'
                                     .format(i, nb, int(np.sum(later)), len(p), k)))
                break
        assoc = s.shell_association(p)
        if not np.all(assoc == i):
            out.append(Violation(prop, 'partition:association' + where,
                                 'shell {}: shell_association gives {} for stored points'.format(
                                     i, sorted(set(assoc.tolist())))))
    # pending transfer candidates (only meaningful during exploration)
    if not s.explored and nb > 1 and len(s.shell_t) > 0:
        st = np.asarray(s.shell_t)
        pend = st >= 0
        if np.any(st >= nb - 1):
            out.append(Violation(prop, 'partition:transfer-origin' + where,
                                 'transfer candidate with origin shell >= newest shell'))
        elif np.any(pend):
            pt = np.asarray(s.points_t)[pend]
            if not np.all(s.bounds[-1].contains(pt)):
                out.append(Violation(prop, 'partition:transfer-not-in-newest' + where,
                                     'pending transfer candidates outside the newest bound'))
            for o in set(st[pend].tolist()):
                po = np.asarray(s.points_t)[st == o]
                if not np.all(s.bounds[o].contains(po)):
                    out.append(Violation(prop, 'partition:transfer-not-in-origin' + where,
                                         'pending transfer candidates outside the bound of their '
                                         'origin shell {}'.format(o)))
        if len(s.points_t) != len(st) or len(s.log_l_t) != len(st):
            out.append(Violation(prop, 'partition:transfer-lengths' + where, 'transfer arrays differ '
                                 'in length'))
        # a candidate (pending or transferred) is never also stored in an old shell, and a
        # transferred one is stored exactly once, in the newest shell
        if len(st) > 0:
            allp = {}
            for i in range(nb):
                for r in np.asarray(s.points[i]):
                    allp.setdefault(r.tobytes(), []).append(i)
            for j, r in enumerate(np.asarray(s.points_t)):
                where_ = allp.get(r.tobytes(), [])
                if st[j] >= 0 and where_:
                    out.append(Violation(prop, 'partition:pending-also-stored' + where,
                                         'pending transfer candidate also stored in shell(s) {}'
                                         .format(where_)))
                    break
                if st[j] < 0 and where_ != [nb - 1]:
                    out.append(Violation(prop, 'partition:transferred-misplaced' + where,
                                         'transferred candidate stored in {} instead of exactly once '
                                         'in the newest shell {}'.format(where_, nb - 1)))
                    break
    return out


def mon_partition(ctx):
    if ctx['exc'] is not None or _act(ctx) == 'observe':
        return []
    return check_partition(ctx['post'])


# --------------------------------------------------------------------------------------------
# helpers shared by C02 / C10 / C12
# --------------------------------------------------------------------------------------------

def view_start(s):
    if s._discard_exploration and s.explored:
        return [int(x) for x in s.shell_end_exp]
    return [0] * len(s.points)


def _close(a, b, rtol=RTOL):
    a = float(a)
    b = float(b)
    if np.isnan(a) or np.isnan(b):
        return np.isnan(a) and np.isnan(b)
    if np.isinf(a) or np.isinf(b):
        return a == b
    return abs(a - b) <= rtol * max(1.0, abs(a), abs(b))


def kish(log_w):
    """(sum w)^2 / sum w^2 from log weights (independent of the implementation's shell route)"""
    log_w = np.asarray(log_w, dtype=float)
    fin = log_w[np.isfinite(log_w)]
    if len(fin) == 0:
        return 0.0
    w = np.exp(fin - np.max(fin))
    return float(np.sum(w) ** 2 / np.sum(w * w))


def reference_estimators(s):
    """Independent recomputation from the raw arrays only: points/log_l per shell, bounds[i].log_v,
    shell_n_sample (validated against the proposal tally), shell_end_exp / shell_n_sample_exp."""
    nb = len(s.bounds)
    start = view_start(s)
    disc = bool(s._discard_exploration and s.explored)
    n = []
    prop = []
    log_v = []
    terms = []
    for i in range(nb):
        ll = np.asarray(s.log_l[i])[start[i]:]
        ni = len(ll)
        pi = int(s.shell_n_sample[i]) - (int(s.shell_n_sample_exp[i]) if disc else 0)
        n.append(ni)
        prop.append(pi)
        if ni > 0:
            with np.errstate(all='ignore'):
                lv = float(s.bounds[i].log_v) + np.log(ni / pi) if pi > 0 else np.nan
            log_v.append(lv)
            terms.append(ll + lv - np.log(ni))
        else:
            log_v.append(-np.inf)
            terms.append(np.zeros(0))
    allt = np.concatenate(terms) if terms else np.zeros(0)
    return dict(n=n, proposals=prop, log_v=log_v, terms=terms, all=allt, start=start)


# --------------------------------------------------------------------------------------------
# C02  M-estimators
# --------------------------------------------------------------------------------------------

def check_estimators(s, prop='C02', where=''):
    out = []
    nb = len(s.bounds)

    def V(sig, msg):
        out.append(Violation(prop, 'estimators:' + sig + where, msg))

    # alignment of per-shell bookkeeping
    for name in ('shell_n', 'shell_n_sample', 'shell_n_eff', 'shell_log_l_min', 'shell_log_l',
                 'shell_log_v'):
        if len(getattr(s, name)) != nb:
            V('array-length:' + name, '{} has length {} for {} bounds'.format(
                name, len(getattr(s, name)), nb))
            return out
    if len(s.points) != nb or len(s.log_l) != nb or (s.blobs is not None and len(s.blobs) != nb):
        V('list-length', 'points/log_l/blobs lists do not have one entry per bound')
        return out
    if s.explored and (len(s.shell_end_exp) != nb or len(s.shell_n_sample_exp) != nb):
        V('array-length:exp', 'shell_end_exp/shell_n_sample_exp length != number of bounds')
        return out
    for i in range(nb):
        if len(s.points[i]) != len(s.log_l[i]):
            V('rows:points-vs-log_l', 'shell {}: {} points, {} log_l'.format(
                i, len(s.points[i]), len(s.log_l[i])))
        if s.blobs is not None and len(s.blobs[i]) != len(s.log_l[i]):
            V('rows:blobs-vs-log_l', 'shell {}: {} blobs, {} log_l'.format(
                i, len(s.blobs[i]), len(s.log_l[i])))
    if out:
        return out
    ref = reference_estimators(s)
    for i in range(nb):
        if int(s.shell_n[i]) != ref['n'][i]:
            V('shell_n', 'shell {}: shell_n={} but {} rows in the current view'.format(
                i, int(s.shell_n[i]), ref['n'][i]))
        if ref['n'][i] > 0:
            if ref['n'][i] > ref['proposals'][i]:
                V('count-exceeds-proposals', 'shell {}: {} samples from {} proposals'.format(
                    i, ref['n'][i], ref['proposals'][i]))
            elif not _close(s.shell_log_v[i], ref['log_v'][i]):
                V('shell_log_v', 'shell {}: shell_log_v={!r}, bound.log_v+log(n/proposals)={!r}'
                  .format(i, float(s.shell_log_v[i]), ref['log_v'][i]))
            ll = np.asarray(s.log_l[i])[ref['start'][i]:]
            with np.errstate(all='ignore'):
                exp_ll = logsumexp(ll) - np.log(len(ll))
            if not _close(s.shell_log_l[i], exp_ll):
                V('shell_log_l', 'shell {}: shell_log_l={!r} expected {!r}'.format(
                    i, float(s.shell_log_l[i]), float(exp_ll)))
            k = kish(ll) if np.any(np.isfinite(ll)) else float(len(ll))
            if not _close(s.shell_n_eff[i], k):
                V('shell_n_eff', 'shell {}: shell_n_eff={!r} expected {!r}'.format(
                    i, float(s.shell_n_eff[i]), k))
    if out:
        return out
    allt = ref['all']
    if len(allt) == 0 or not np.any(np.isfinite(allt)):
        return out          # estimators undefined (no sample / all -inf): skipped, see DESIGN
    with np.errstate(all='ignore'):
        log_z = float(logsumexp(allt))
    if s.log_z is None or not _close(s.log_z, log_z):
        V('log_z', 'log_z={!r}, recomputed from stored samples {!r}'.format(s.log_z, log_z))
    ne = kish(allt)
    if not _close(s.n_eff, ne):
        V('n_eff', 'n_eff={!r}, Kish of stored sample weights {!r}'.format(float(s.n_eff), ne))
    # eta: documented formula from raw per-shell quantities
    zs, etas = [], []
    for i in range(nb):
        if ref['n'][i] > 0:
            t = ref['terms'][i]
            with np.errstate(all='ignore'):
                zi = logsumexp(t)
            ll = np.asarray(s.log_l[i])[ref['start'][i]:]
            ki = kish(ll) if np.any(np.isfinite(ll)) else float(len(ll))
            zs.append(zi)
            etas.append(ki / ref['n'][i])
    with np.errstate(all='ignore'):
        zs = np.array(zs)
        etas = np.array(etas)
        eta = float(np.exp(2 * logsumexp(zs) - 2 * logsumexp(zs - 0.5 * np.log(etas))))
    try:
        with np.errstate(all='ignore'):
            got = float(s.eta)
    except Exception as e:
        got = None
        V('eta-raises', 'eta raised {}'.format(type(e).__name__))
    if got is not None and not _close(got, eta, 1e-8):
        V('eta', 'eta={!r}, documented formula on stored samples {!r}'.format(got, eta))
    # posterior(): weights are the per-sample terms normalised to one
    try:
        with np.errstate(all='ignore'):
            res = s.posterior()
    except Exception as e:
        V('posterior-raises:' + type(e).__name__, 'posterior() raised: {}'.format(e))
        return out
    log_w = np.asarray(res[1])
    exp_w = allt - log_z
    if len(log_w) != len(exp_w):
        V('posterior-length', 'posterior() returns {} rows, the view holds {}'.format(
            len(log_w), len(exp_w)))
        return out
    fin = np.isfinite(exp_w)
    if not np.array_equal(np.isfinite(log_w), fin) or (np.any(fin) and np.max(np.abs(
            log_w[fin] - exp_w[fin])) > 1e-9 * max(1.0, np.max(np.abs(exp_w[fin])))):
        V('posterior-weights', 'posterior() weights differ from normalised L*V/n of the stored samples'
          ' (max abs diff {})'.format(float(np.nanmax(np.abs(np.where(fin, log_w - exp_w, 0))))))
    with np.errstate(all='ignore'):
        if np.any(np.isfinite(log_w)) and abs(float(logsumexp(log_w))) > 1e-9:
            V('posterior-normalisation', 'logsumexp(log_w)={!r}'.format(float(logsumexp(log_w))))
    exp_l = np.concatenate([np.asarray(s.log_l[i])[ref['start'][i]:] for i in range(nb)])
    if not np.array_equal(np.asarray(res[2]), exp_l):
        V('posterior-log_l', 'posterior() log_l is not the concatenation of the stored log_l')
    return out


def tally_check(ctx, prop='C02'):
    """shell_n_sample increments == points handed out by the bounds' sample() (independent tally)"""
    if ctx['exc'] is not None or _act(ctx) in ('resume', 'observe', 'toggle'):
        return []
    s = ctx['post']
    pre = ctx['pre']
    before = {bid: j for j, bid in enumerate(ctx['bound_ids_before'])}
    tal = {}
    for bid, n_req, n_ret in ctx['tally']:
        tal[bid] = tal.get(bid, 0) + n_ret
    out = []
    known = set()
    for j, b in enumerate(s.bounds):
        bid = id(b)
        known.add(bid)
        base = int(pre.shell_n_sample[before[bid]]) if bid in before else 0
        if int(s.shell_n_sample[j]) != base + tal.get(bid, 0):
            out.append(Violation(prop, 'tally:shell_n_sample',
                                 'shell {}: shell_n_sample went {} -> {} but its bound handed out {} '
                                 'proposals'.format(j, base, int(s.shell_n_sample[j]),
                                                    tal.get(bid, 0))))
    for bid, n in tal.items():
        if bid not in known and bid not in before and n > 0:
            pass        # a freshly built and rejected bound is never sampled with return_points
    return out


def mon_estimators(ctx):
    if ctx['exc'] is not None or _act(ctx) == 'observe':
        return []
    return check_estimators(ctx['post']) + tally_check(ctx)


# --------------------------------------------------------------------------------------------
# C03  M-rows
# --------------------------------------------------------------------------------------------

def _as_matrix(points, scn):
    """posterior() points -> (n, d) float array whatever the return convention"""
    keys = scn.keys_()
    if isinstance(points, dict):
        return np.stack([np.asarray(points[k]) for k in keys], axis=-1)
    points = np.asarray(points)
    if points.dtype == object:
        return np.array([[np.asarray(r[k])[()] for k in keys] for r in points], dtype=float)
    return points


def _blob_columns(blobs, kind):
    """stored blob array -> list of comparable columns"""
    if kind in ('float', 'int', 'f32', 'array'):
        return [np.asarray(blobs)]
    if kind == 'two':
        return [np.asarray(blobs['blob_0']), np.asarray(blobs['blob_1'])]
    if kind == 'struct':
        return [np.asarray(blobs['a']), np.asarray(blobs['tag'])]
    raise ValueError(kind)


def _expected_blob_columns(scn, x):
    from . import scen
    c = [x[..., i] for i in range(x.shape[-1])]
    b = scen._blobs(scn['blob'], c)
    kind = scn['blob']
    if kind == 'f32':
        return [np.asarray(b[0]).astype(np.float32)]
    if kind == 'struct':
        return [np.asarray(b[0]), np.asarray(b[1]).astype('S4')]
    return [np.asarray(bi) for bi in b]


def _rows_key(cols):
    """one bytes key per row from a list of column arrays"""
    n = len(cols[0])
    parts = [np.ascontiguousarray(c).reshape(n, -1) for c in cols]
    parts = [p.view(np.uint8).reshape(n, -1) if p.dtype.kind != 'S' else
             np.frombuffer(p.tobytes(), dtype=np.uint8).reshape(n, -1) for p in parts]
    m = np.concatenate(parts, axis=1)
    return [r.tobytes() for r in m]


def check_rows(s, scn, prop='C03', where=''):
    out = []

    def V(sig, msg):
        out.append(Violation(prop, 'rows:' + sig + where, msg))

    if len(s.bounds) == 0 or int(np.sum([len(x) for x in s.log_l])) == 0:
        return out
    start = view_start(s)
    if sum(len(s.log_l[i]) - start[i] for i in range(len(s.log_l))) == 0:
        return out
    kind = scn['blob']
    try:
        with np.errstate(all='ignore'):
            res = s.posterior(return_blobs=True) if kind != 'none' else s.posterior()
    except Exception as e:
        V('posterior-raises:' + type(e).__name__, 'posterior() raised {}: {}'.format(
            type(e).__name__, e))
        return out
    pts = _as_matrix(res[0], scn)
    log_w, log_l = np.asarray(res[1]), np.asarray(res[2])
    n = len(log_l)
    if not (len(pts) == n == len(log_w)) or (kind != 'none' and len(res[3]) != n):
        V('lengths', 'posterior() arrays have different lengths: points {}, log_w {}, log_l {}{}'
          .format(len(pts), len(log_w), n, '' if kind == 'none' else ', blobs {}'.format(
              len(res[3]))))
        return out
    # faithful triple: re-evaluate the pure likelihood on the returned point
    with np.errstate(all='ignore'):
        val = scn.pure(pts)
    exp_l = np.asarray(val[0] if isinstance(val, tuple) else val, dtype=float)
    if not np.array_equal(exp_l, log_l, equal_nan=True):
        bad = int(np.sum(~((exp_l == log_l) | (np.isnan(exp_l) & np.isnan(log_l)))))
        V('log_l-mismatch', '{} of {} posterior rows carry a log-likelihood that is not the one '
          'the likelihood returns for the row\'s point'.format(bad, n))
    if kind != 'none':
        blobs = res[3]
        try:
            got = _blob_columns(blobs, kind)
            exp = _expected_blob_columns(scn, pts)
            for gi, ei in zip(got, exp):
                if gi.shape != ei.shape or not np.array_equal(gi, ei):
                    badn = n if gi.shape != ei.shape else int(np.sum(np.any(
                        (gi != ei).reshape(n, -1), axis=1)))
                    V('blob-mismatch', '{} of {} posterior rows carry a blob that is not the one '
                      'the likelihood returns for the row\'s point (shapes {} vs {})'.format(
                          badn, n, gi.shape, ei.shape))
                    break
        except (ValueError, KeyError, IndexError) as e:
            V('blob-layout:' + type(e).__name__, 'blob array has unexpected layout: {} (dtype {})'
              .format(e, getattr(blobs, 'dtype', None)))
    # once each
    keys = _rows_key([pts])
    if len(set(keys)) != n:
        V('duplicate-rows', '{} posterior rows but only {} distinct points'.format(
            n, len(set(keys))))
    # multiset of rows == multiset over the stored unit-cube points in view
    unit = np.concatenate([np.asarray(s.points[i])[start[i]:] for i in range(len(s.points))])
    if len(unit) != n:
        V('row-count', '{} rows returned, {} stored points in view'.format(n, len(unit)))
    else:
        with np.errstate(all='ignore'):
            phys = _as_matrix(_transform(s, scn, unit), scn)
        if sorted(_rows_key([phys])) != sorted(keys):
            V('rows-not-stored-points', 'posterior() points are not the transformed stored points')
    # stored arrays themselves: log_l[i][j] == L(points[i][j])
    return out


def _transform(s, scn, unit):
    """the prior transform as posterior() applies it (vectorised application of the same pure map)"""
    if scn['prior'] in ('identity', 'inplace'):
        return np.array(unit, copy=True)
    if scn['prior'] == 'dictfn':
        return {k: unit[..., i] for i, k in enumerate(scn.keys_())}
    if callable(s.prior):
        return s.prior(np.array(unit, copy=True))
    return s.prior.unit_to_physical(np.array(unit, copy=True))


def mon_rows(ctx):
    if ctx['exc'] is not None or _act(ctx) == 'observe':
        return []
    from . import scen
    on = scen.LOG['on']
    scen.LOG['on'] = False
    try:
        return check_rows(ctx['post'], ctx['scn'])
    finally:
        scen.LOG['on'] = on


# --------------------------------------------------------------------------------------------
# C05  M-once
# --------------------------------------------------------------------------------------------

def mon_once(prop='C05'):
    def mon(ctx):
        if ctx['exc'] is None and ctx.get('dup_points'):
            return [Violation(prop, 'once:point-evaluated-twice',
                              'action {} evaluated a point that was already evaluated on this path '
                              '(or twice in one batch)'.format(ctx['action']))]
        return []
    return mon


# --------------------------------------------------------------------------------------------
# C10  M-calls
# --------------------------------------------------------------------------------------------

def success_predicate(s, n_shell, n_eff):
    """independent recomputation of run()'s documented success condition; returns (bool, margin_ok)
    where margin_ok is False when the recomputed n_eff is within 1e-9 relative of the target"""
    if not s.explored:
        return False, True
    ref = reference_estimators(s)
    if not all(n >= n_shell for n in ref['n']):
        return False, True
    k = kish(ref['all'])
    margin_ok = abs(k - n_eff) > 1e-9 * max(1.0, abs(n_eff))
    return k >= n_eff, margin_ok


def mon_calls(ctx):
    prop = 'C10'
    out = []
    act = _act(ctx)
    if ctx['exc'] is not None or act in ('observe', 'toggle'):
        return out
    pre, s, scn = ctx['pre'], ctx['post'], ctx['scn']
    nb = scn['n_batch']

    def V(sig, msg):
        out.append(Violation(prop, 'calls:' + sig, msg))

    n_logged = sum(int(np.atleast_2d(a).shape[0]) for a in ctx['log_like'])
    n_prior = sum(int(np.atleast_2d(a).shape[0]) for a in ctx['log_prior'])
    d_like = int(s.n_like) - int(pre.n_like)
    if act == 'resume':
        if d_like != 0 and ctx['state'].file is not None:
            V('resume-count', 'resumed sampler reports n_like={} but the stopped one had {}'.format(
                int(s.n_like), int(pre.n_like)))
        if n_logged:
            V('resume-evaluates', 'resuming evaluated the likelihood {} times'.format(n_logged))
        return out
    if d_like != n_logged:
        V('counter', 'n_like grew by {} but the likelihood received {} points'.format(
            d_like, n_logged))
    if n_prior != n_logged:
        V('prior-vs-like', 'prior transformed {} points, likelihood received {}'.format(
            n_prior, n_logged))
    for k, e in enumerate(ctx['evals']):
        if e != nb:
            V('batch-size', 'a step evaluated a batch of {} points, n_batch={}'.format(e, nb))
            break
    if sum(ctx['evals']) != n_logged:
        V('outside-batches', '{} points evaluated outside evaluate_likelihood batches'.format(
            n_logged - sum(ctx['evals'])))
    for a in ctx['log_prior']:
        a = np.atleast_2d(a)
        if not np.all((a >= 0) & (a < 1)):
            V('support', 'a point outside [0,1)^d was passed to the prior/likelihood: {}'.format(
                a[~np.all((a >= 0) & (a < 1), axis=1)][0].tolist()))
            break
    # budget / timeout / return value
    n_eff_t, n_shell_t = ctx['new'].target if ctx['new'] is not None else ctx['state'].target
    k = len(ctx['evals'])
    n_like_max = None
    timeout = None
    if act in ('step', 'raise', 'runarg', 'sched'):
        n_like_max = int(pre.n_like) + 1
    elif act == 'run2':
        n_like_max = int(pre.n_like) + nb + 1
    elif act == 'cap':
        n_like_max = dict(zero=0, below=int(pre.n_like) - 1, at=int(pre.n_like))[ctx['action'][1]]
    elif act == 'tick':
        timeout = ctx['action'][1]
    if n_like_max is not None and k > 0:
        if not int(pre.n_like) + (k - 1) * nb < n_like_max:
            V('budget', 'a batch was started with n_like={} >= n_like_max={}'.format(
                int(pre.n_like) + (k - 1) * nb, n_like_max))
    if act == 'cap' or (act == 'tick' and timeout in (0, 1)):
        if n_logged or d_like:
            V('limit-reached-but-evaluated', '{} with the limit already reached evaluated {} '
              'points'.format(ctx['action'], n_logged))
    if timeout is not None and k > max(timeout - 1, 0):
        V('timeout', 'timeout={} virtual ticks allows {} batches, {} were run'.format(
            timeout, max(timeout - 1, 0), k))
    ret = ctx['ret']
    if ret is not None:
        want, margin_ok = success_predicate(s, n_shell_t, n_eff_t)
        if margin_ok and bool(ret) != bool(want):
            V('return-value', 'run() returned {} but explored={}, min shell count={}, recomputed '
              'n_eff={!r} (targets n_shell={}, n_eff={})'.format(
                  bool(ret), bool(s.explored),
                  min(reference_estimators(s)['n']) if len(s.bounds) else None,
                  kish(reference_estimators(s)['all']), n_shell_t, n_eff_t))
        if not bool(ret) and margin_ok and not want:
            # a False return must be explained by a limit that was really reached
            reached = False
            if n_like_max is not None and int(s.n_like) >= n_like_max:
                reached = True
            if timeout is not None and k >= max(timeout - 1, 0):
                reached = True
            if act == 'finish':
                reached = False
            if not reached:
                V('early-stop', 'run() returned False although neither n_like_max nor the timeout '
                  'was reached (n_like={}, limit={}, timeout={}, batches={})'.format(
                      int(s.n_like), n_like_max, timeout, k))
    return out


# --------------------------------------------------------------------------------------------
# C11  M-pure
# --------------------------------------------------------------------------------------------

def mon_pure(ctx):
    prop = 'C11'
    act = _act(ctx)
    if act != 'observe':
        return []
    if ctx['exc'] is not None:
        typ, msg, site = ctx['exc']
        return [Violation(prop, 'pure:accessor-raises:{}:{}'.format(typ, site),
                          'a read-only accessor raised {}: {}'.format(typ, msg))]
    st, new = ctx['state'], ctx['new']
    out = []
    if new.skey != st.skey:
        out.append(Violation(prop, 'pure:accessor-changes-sampler',
                             'calling the read-only accessors changed the sampler state ({})'.format(
                                 _diff_fields(ctx['pre'], ctx['post']))))
    if new.fkey != st.fkey:
        out.append(Violation(prop, 'pure:accessor-changes-file',
                             'calling the read-only accessors changed the checkpoint file'))
    if ctx['log_like']:
        out.append(Violation(prop, 'pure:accessor-evaluates', 'an accessor evaluated the likelihood'))
    return out


def _diff_fields(a, b):
    names = []
    for k in sorted(set(a.__dict__) | set(b.__dict__)):
        if k in core.SAMPLER_EXCLUDE:
            continue
        if core.digest(a.__dict__.get(k)) != core.digest(b.__dict__.get(k)):
            names.append(k)
    return ','.join(names)


def mon_noop(prop):
    """cap / tick(0) / tick(1) on a sampler that already has bounds must change nothing"""
    def mon(ctx):
        act = _act(ctx)
        if ctx['exc'] is not None:
            return []
        if not (act == 'cap' or (act == 'tick' and ctx['action'][1] in (0, 1))):
            return []
        if len(ctx['pre'].bounds) == 0:
            return []
        st, new = ctx['state'], ctx['new']
        if new.skey != st.skey or new.fkey != st.fkey or new.ekey != st.ekey:
            return [Violation(prop, 'noop:{}-changes-state'.format(act),
                              '{} with the limit already reached changed the state ({})'.format(
                                  ctx['action'], _diff_fields(ctx['pre'], ctx['post'])))]
        return []
    return mon


# --------------------------------------------------------------------------------------------
# C12  M-freeze / M-toggle / resume fidelity
# --------------------------------------------------------------------------------------------

def bound_structure(b):
    """what defines the REGION of a bound - not its sampling caches, counters or generator.
    Identical for a native bound and its read-back."""
    name = type(b).__name__
    if name == 'UnitCube':
        return ['cube', int(b.n_dim)]
    if name == 'Ellipsoid':
        return ['ell', np.asarray(b.c), np.asarray(b.A), np.asarray(b.B), np.asarray(b.B_inv)]
    if name == 'UnitCubeEllipsoidMixture':
        return ['mix', np.asarray(b.dim_cube).astype(int),
                None if b.ellipsoid is None else bound_structure(b.ellipsoid)]
    if name == 'Union':
        return ['union', getattr(b, 'cube', None) is not None,
                [bound_structure(x) for x in b.bounds], np.asarray(b.log_v_all),
                [np.asarray(p) for p in b.points_bounds]]
    if name == 'NeuralBound':
        em = None
        if b.emulator is not None:
            em = [np.asarray(b.emulator.mean), np.asarray(b.emulator.scale),
                  [[np.asarray(c) for c in n.coefs_] + [np.asarray(c) for c in n.intercepts_]
                   for n in b.emulator.neural_networks]]
        return ['neural', bound_structure(b.outer_bound), float(b.score_predict_min), em]
    if name == 'NautilusBound':
        sh = None
        if b.shift is not None:
            sh = [np.asarray(b.shift.periodic).astype(int), np.asarray(b.shift.centers)]
        return ['nautilus', sh, [bound_structure(x) for x in b.neural_bounds],
                bound_structure(b.outer_bound)]
    raise TypeError(name)


def mon_freeze(ctx):
    prop = 'C12'
    if ctx['exc'] is not None or _act(ctx) in ('observe',):
        return []
    pre, s = ctx['pre'], ctx['post']
    out = []

    def V(sig, msg):
        out.append(Violation(prop, 'freeze:' + sig, msg))

    if s.explored:
        for i, p in enumerate(s.points):
            if len(p) == 0:
                V('empty-shell-after-exploration', 'shell {} of {} stores no sample although '
                  'exploration has finished'.format(i, len(s.points)))
                break
    if not pre.explored:
        return out
    if not s.explored:
        V('exploration-resumed', 'explored went from True to False on {}'.format(ctx['action']))
        return out
    if len(s.bounds) != len(pre.bounds):
        V('bounds-changed', 'number of bounds changed {} -> {} after exploration had finished'
          .format(len(pre.bounds), len(s.bounds)))
        return out
    for i, (a, b) in enumerate(zip(pre.bounds, s.bounds)):
        if core.digest(bound_structure(a)) != core.digest(bound_structure(b)):
            V('bound-altered', 'bound {} changed structurally after exploration had finished ({})'
              .format(i, _act(ctx)))
            break
    for name in ('shell_end_exp', 'shell_n_sample_exp'):
        if not np.array_equal(np.asarray(getattr(pre, name)), np.asarray(getattr(s, name))):
            V(name + '-changed', '{} changed after exploration: {} -> {}'.format(
                name, np.asarray(getattr(pre, name)).tolist(),
                np.asarray(getattr(s, name)).tolist()))
    lists = [('points', pre.points, s.points), ('log_l', pre.log_l, s.log_l)]
    if pre.blobs is not None and s.blobs is not None:
        lists.append(('blobs', pre.blobs, s.blobs))
    for name, la, lb in lists:
        for i, (a, b) in enumerate(zip(la, lb)):
            a = np.asarray(a)
            b = np.asarray(b)
            if len(b) < len(a) or a.tobytes() != b[:len(a)].astype(a.dtype).tobytes():
                V('not-append-only:' + name, 'shell {}: old {} ({} rows) is not a prefix of the '
                  'new one ({} rows)'.format(i, name, len(a), len(b)))
                break
    if (pre.blobs is None) != (s.blobs is None):
        V('blobs-appeared', 'blobs list appeared/disappeared after exploration')
    return out


def _mask_empty(s):
    """toggle;toggle comparison: an empty shell's shell_log_v may be nan (freshly opened) or -inf
    (rewritten by the setter); both mean 'empty' and every consumer treats them alike"""
    for i in range(len(s.shell_n)):
        if int(s.shell_n[i]) == 0:
            s.shell_log_v[i] = -np.inf
            s.shell_log_l[i] = np.nan
    return s


def public_stats(s):
    with np.errstate(all='ignore'):
        st = dict(log_z=s.log_z, n_eff=s.n_eff, n_like=s.n_like, f_live=s.f_live,
                  shell_n=np.asarray(s.shell_n), discard=bool(s.discard_exploration))
        if len(s.bounds) and np.sum(s.shell_n) > 0:
            st['eta'] = s.eta
            p = list(s.posterior(return_blobs=s.blobs is not None))
            if isinstance(p[0], dict):
                p[0] = [p[0][k] for k in sorted(p[0])]
            if len(p[1]) == 0:
                p[0] = 'no rows'
            st['posterior'] = p
    return st


def mon_toggle(ctx):
    prop = 'C12'
    import pickle
    out = []
    if ctx['exc'] is not None:
        return out
    act = _act(ctx)
    s, pre = ctx['post'], ctx['pre']

    def V(sig, msg):
        out.append(Violation(prop, 'toggle:' + sig, msg))

    # (a) discard on + explored: the view is exactly the samples evaluated after exploration ended
    exp_set = ctx['new'].exp_points if ctx['new'] is not None else None
    if act != 'observe' and s.explored and s._discard_exploration and exp_set is not None:
        try:
            with np.errstate(all='ignore'):
                pts = _as_matrix(s.posterior()[0], ctx['scn'])
            stored = np.concatenate([np.asarray(p) for p in s.points])
            want = [r for r in stored if np.ascontiguousarray(r).tobytes() not in exp_set]
            phys = _as_matrix(_transform(s, ctx['scn'], np.array(want).reshape(
                len(want), stored.shape[1])), ctx['scn']) if len(want) else np.zeros((0, 0))
            got = sorted(_rows_key([pts])) if len(pts) else []
            exp = sorted(_rows_key([phys])) if len(want) else []
            if got != exp:
                V('discard-view-wrong', 'with discard_exploration on, posterior() shows {} rows; {} '
                  'stored samples were evaluated after exploration ended'.format(len(got), len(exp)))
        except Exception as e:
            if len(np.concatenate([np.asarray(p) for p in s.points])) > 0 and int(np.sum(
                    s.shell_n)) > 0:
                V('discard-view-raises:' + type(e).__name__, 'posterior() raised with discard on: '
                  '{}'.format(e))
    # (b) toggle;toggle is the identity
    if act == 'toggle':
        p2 = pickle.loads(pickle.dumps(s))
        try:
            p2.discard_exploration = not bool(p2.discard_exploration)
        except Exception as e:
            V('second-toggle-raises:' + type(e).__name__, str(e))
            return out
        a = core.sampler_digest(_mask_empty(pickle.loads(pickle.dumps(pre))))
        b = core.sampler_digest(_mask_empty(p2))
        if a != b:
            V('double-toggle-not-identity', 'toggle;toggle changed the sampler ({})'.format(
                _diff_fields(_mask_empty(pickle.loads(pickle.dumps(pre))), _mask_empty(p2))))
        else:
            try:
                if core.digest(public_stats(pre)) != core.digest(public_stats(p2)):
                    V('double-toggle-statistics', 'toggle;toggle changed a public statistic')
            except Exception:
                pass
        # a toggle changes nothing but the view: stored arrays untouched
        for name in ('points', 'log_l', 'blobs', 'shell_n_sample', 'n_like', 'explored',
                     'shell_end_exp', 'shell_n_sample_exp'):
            if core.digest(getattr(pre, name)) != core.digest(getattr(s, name)):
                V('toggle-alters:' + name, 'setting discard_exploration altered {}'.format(name))
        if not s.explored and core.digest(public_stats_safe(pre, skip=('discard',))) != core.digest(
                public_stats_safe(s, skip=('discard',))):
            V('toggle-before-exploration-end-changes-statistics', 'toggling before exploration has '
              'finished changed a public statistic')
        # (c) the view a toggle produces depends on the stored samples only: in EITHER direction the
        # per-shell statistics must be the ones recomputed from points/log_l/bounds for that view (a
        # sampler that had discard on from run() has no earlier 'off' state to compare with, so the
        # involution (b) alone cannot see an 'off' view that is wrong)
        if s.explored:
            try:
                for v in check_estimators(s, prop=prop, where='@toggle'):
                    V('view-' + ('on' if s._discard_exploration else 'off') + ':' + v['signature'],
                      v['explanation'])
            except Exception as e:
                V('view-check-raises:' + type(e).__name__, str(e)[:200])
    return out


def public_stats_safe(s, skip=()):
    try:
        d = public_stats(s)
    except Exception as e:
        return dict(error=type(e).__name__)
    for k in skip:
        d.pop(k, None)
    return d


def mon_resume_obs(prop):
    """a sampler resumed from the file shows the same public statistics as the stopped one"""
    def mon(ctx):
        if _act(ctx) != 'resume' or ctx['exc'] is not None or ctx['state'].file is None:
            return []
        if ctx['state'].thist != ctx['state'].thist_ck:
            return []       # a toggle after the last checkpoint is (legitimately) not persisted
        a = public_stats_safe(ctx['pre'])
        b = public_stats_safe(ctx['post'])
        if 'error' in b and 'error' not in a:
            return [Violation(prop, 'resume:statistics-raise:' + b['error'],
                              'after resume, reading the public statistics raises {} (path has {} '
                              'toggles)'.format(b['error'], ctx['state'].toggles))]
        if core.digest(a) != core.digest(b):
            diff = [k for k in a if core.digest(a.get(k)) != core.digest(b.get(k))]
            return [Violation(prop, 'resume:statistics-differ:' + ','.join(diff),
                              'the resumed sampler reports different {} than the stopped one'.format(
                                  diff))]
        return []
    return mon
