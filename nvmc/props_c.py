"""Engine-C checks: C13 (union well-formedness), C07 (bound soundness), C09 (HDF5 round trip)."""
import itertools
import json
import pickle

import numpy as np

from . import core, scen
from . import boundmc as B
from .core import Violation


def _timeouts(prop, results):
    """a job that ran into the job limit (library code that does not return) is a violation"""
    out = []
    for r in results:
        if isinstance(r, dict) and r.get('timeout'):
            out.append(dict(states=0, transitions=0, sequences=0, closed=False, samples=[], cls='timeout',
                            job=dict(family='?', d=0, n=0, cls='?', npm=0, depth=0, seeds=()),
                            violations=[Violation(prop, 'hang:job', 'a job did not finish within {} s: '
                                                  '{}'.format(core.JOB_LIMIT_S, str(r['args'])[:300]),
                                                  dict(kind='timeout', args=str(r['args'])[:500]))]))
        else:
            out.append(r)
    return out


# ============================================================================================
# C13
# ============================================================================================

def c13_jobs(tier):
    s = core.SEED
    jobs = [
        dict(family='three', d=2, n=36, cls='Ellipsoid', npm=5, depth=8, seeds=(0, 1)),
        dict(family='two', d=2, n=30, cls='UnitCubeEllipsoidMixture', npm=4, depth=8, seeds=(0, 1)),
        dict(family='blob', d=3, n=20, cls='Ellipsoid', npm=4, depth=5, seeds=(0, 1)),
        dict(family='four', d=2, n=44, cls='Ellipsoid', npm=5, depth=6, seeds=(0, 1)),
        dict(family='blob', d=2, n=9, cls='Ellipsoid', npm=5, depth=4, seeds=(0, 1)),
        dict(family='blob', d=2, n=10, cls='Ellipsoid', npm=5, depth=4, seeds=(0, 1)),
        dict(family='blob', d=2, n=11, cls='UnitCubeEllipsoidMixture', npm=5, depth=4, seeds=(0, 1)),
        dict(family='two', d=2, n=21, cls='Ellipsoid', npm=10, depth=6, seeds=(0, 1)),
        dict(family='tinyball110', d=3, n=120, cls='Ellipsoid', npm=10, depth=3, seeds=(0, 1)),
        dict(family='tinyball45', d=8, n=60, cls='Ellipsoid', npm=9, depth=2, seeds=(0, 1)),
    ]
    if tier == 'thorough':
        jobs = [dict(j, depth=16, seeds=(0, 1, 2, 3)) for j in jobs]
        for j in jobs:
            if j['family'] == 'blob' and j['n'] == 20:
                j['depth'] = 7
            if j['family'].startswith('tinyball'):
                j['depth'] = 5
        jobs += [
            dict(family='three', d=3, n=45, cls='UnitCubeEllipsoidMixture', npm=5, depth=10,
                 seeds=(0, 1)),
            dict(family='four', d=2, n=60, cls='UnitCubeEllipsoidMixture', npm=5, depth=8,
                 seeds=(0, 1)),
            dict(family='banana', d=2, n=40, cls='Ellipsoid', npm=5, depth=7, seeds=(0, 1, 2)),
            dict(family='face', d=2, n=30, cls='UnitCubeEllipsoidMixture', npm=3, depth=6,
                 seeds=(0, 1)),
            dict(family='two', d=2, n=40, cls='Ellipsoid', npm=3, depth=7, seeds=(0, 1), unit=False),
            dict(family='tinyball70', d=5, n=300, cls='UnitCubeEllipsoidMixture', npm=20, depth=4,
                 seeds=(0, 1)),
            dict(family='tinyball110', d=3, n=200, cls='UnitCubeEllipsoidMixture', npm=10, depth=4,
                 seeds=(0, 1)),
        ]
    for j in jobs:
        j.setdefault('unit', True)
        j['seed'] = s
    return jobs


def _c13_job(j):
    pts = B.pointset(j['family'], j['d'], j['n'], j['seed'])
    ex = B.UnionExplorer(pts, j['cls'], j['npm'], 1.1, j['unit'], seeds=tuple(j['seeds']),
                         depth=j['depth'], prop='C13', max_states=3000).run()
    for v in ex.viol.values():
        v['replay']['job'] = j
    return dict(job=j, states=ex.states, transitions=ex.transitions, sequences=ex.sequences,
                closed=ex.closed, violations=list(ex.viol.values()), samples=ex.samples)


_c13_job.time_limited = True


def run_C13(tier):
    timer = core.Timer()
    jobs = c13_jobs(tier)
    res = _timeouts('C13', core.pmap(_c13_job, [(j,) for j in jobs]))
    violations = [v for r in res for v in r['violations']]
    cov = dict(
        states=sum(r['states'] for r in res), transitions=sum(r['transitions'] for r in res),
        traces_validated_against_impl=sum(r['transitions'] for r in res),
        samples=[s for r in res for s in r['samples']][:6],
        exhaustive=True,
        operation_sequences=sum(r['sequences'] for r in res),
        per_union=[dict(points=r['job']['family'], d=r['job']['d'], n=r['job']['n'],
                        bound_class=r['job']['cls'], n_points_min=r['job']['npm'],
                        depth_cap=r['job']['depth'], gmm_seed_alphabet=list(r['job']['seeds']),
                        states=r['states'], transitions=r['transitions'],
                        closed_before_cap=r['closed']) for r in res],
        explanation='all sequences over {split(allow_overlap) x scripted GMM seed, split(no overlap) '
                    'x seed, trim(1e3), trim(1e-9)} up to the depth cap on the real Union, structural '
                    'states de-duplicated; sample(1)/sample(250)/log_v/reset evaluated as self-loops '
                    'in every state; closed_before_cap=true means the structural state graph closed, '
                    'i.e. sequences of every length are covered for the scripted seeds',
        assumptions=['Union.rng.integers (the GMM seed) is scripted from a finite alphabet; all other '
                     'draws come from a seeded PCG64', 'structural key excludes sampling caches and '
                     'generator state: split/trim read neither (argued in DESIGN.md, Engine C)'])
    return cov, violations, timer()


# ============================================================================================
# bound zoo shared by C07 and C09
# ============================================================================================

ENLARGE = (1 + 1e-6, 1.01, 1.1, 2.0)
CALL_LIMIT_S = 120      # one sample()/log_v call of a bound; normal: milliseconds to seconds


def zoo_specs(tier, prop):
    """finite product of (class, dimension, point family, enlargement, unit, ...) specifications"""
    s = core.SEED
    specs = []
    quick = tier == 'quick'
    dims = (1, 2, 3, 5, 8)
    fams = ['blob', 'elongated', 'banana', 'two', 'face', 'corner', 'tiny', 'wrapped', 'minimal']
    for d in dims:
        specs.append(dict(cls='UnitCube', d=d))
    for d in dims:
        for fam in fams:
            if d == 1 and fam in ('elongated', 'banana', 'two'):
                continue
            for e in (ENLARGE if not quick else (ENLARGE[0], ENLARGE[2])):
                if quick and d in (5, 8) and fam not in ('blob', 'corner', 'minimal'):
                    continue
                specs.append(dict(cls='Ellipsoid', d=d, family=fam, enlarge=e,
                                  n=max(3 * d + 4, 12)))
                if d >= 2:
                    specs.append(dict(cls='UnitCubeEllipsoidMixture', d=d, family=fam, enlarge=e,
                                      n=max(3 * d + 4, 12)))
    # mixtures rebuilt from the cube (second construction path of UnitCubeEllipsoidMixture.compute)
    for d in (3, 4):
        for e in (1.1, 2.0):
            specs.append(dict(cls='UnitCubeEllipsoidMixture', d=d, family='ringwide', enlarge=e, n=120))
    specs.append(dict(cls='Union', member='UnitCubeEllipsoidMixture', unit=True, family='ringwide', d=3,
                      n=120, enlarge=2.0, depth=3 if quick else 5, npm=5))
    # unions: explored through split/trim histories
    for cls in ('Ellipsoid', 'UnitCubeEllipsoidMixture'):
        for unit in (True, False):
            for fam, d, n in (('three', 2, 36), ('two', 3, 30), ('face', 2, 24), ('wrapped', 2, 30)):
                for e in ((1 + 1e-6, 1.1) if quick else ENLARGE):
                    if quick and (fam, unit) in (('two', False), ('wrapped', False)):
                        continue
                    specs.append(dict(cls='Union', member=cls, unit=unit, family=fam, d=d, n=n,
                                      enlarge=e, depth=3 if quick else 5, npm=d + 2))
    # members with different cube/ellipsoid patterns poking through faces; tilted ellipsoids whose
    # extent exceeds their axis intercepts (added for seeded changes C07-j, C10-j)
    for cls in ('Ellipsoid', 'UnitCubeEllipsoidMixture'):
        for fam, d, n in (('slabs', 2, 80), ('slabs', 3, 120), ('tilted', 2, 60), ('tilted', 3, 60)):
            for e in ((1.1,) if quick else (1.01, 1.1, 2.0)):
                specs.append(dict(cls='Union', member=cls, unit=True, family=fam, d=d, n=n,
                                  enlarge=e, depth=3 if quick else 5, npm=d + 2))
    # unions with many members (two-digit member indices)
    for cls in ('Ellipsoid', 'UnitCubeEllipsoidMixture'):
        for d, n in (((2, 160),) if quick else ((2, 160), (3, 220))):
            specs.append(dict(cls='UnionMany', member=cls, unit=True, family='banana', d=d, n=n,
                              enlarge=1.1, npm=d + 2, members=12))
    # neural / nautilus bounds
    for nn in (0, 1):
        for d in ((2,) if quick else (2, 3, 5)):
            specs.append(dict(cls='NeuralBound', d=d, n_networks=nn, enlarge=1.1))
    per = [None, [0], [0, 1]]
    for nn in (0, 1):
        for p in per:
            for fam in ('blob', 'two', 'wrapped'):
                if p is None and fam == 'wrapped':
                    continue
                if quick and ((nn == 1 and fam == 'two') or (p == [0, 1] and fam == 'blob')):
                    continue
                for pool in (0, 2):
                    if quick and pool and fam != 'wrapped' and nn == 0:
                        continue
                    specs.append(dict(cls='NautilusBound', d=2, n_networks=nn, periodic=p,
                                      family=fam, pool=pool, enlarge=1.1))
    if not quick:
        for d in (3, 5, 8):
            specs.append(dict(cls='NautilusBound', d=d, n_networks=1, periodic=[0], family='wrapped',
                              pool=2, enlarge=1.1))
            specs.append(dict(cls='NautilusBound', d=d, n_networks=0, periodic=None, family='blob',
                              pool=0, enlarge=1.05))
        # non-default network hyper-parameters (C09)
        specs.append(dict(cls='NautilusBound', d=2, n_networks=2, periodic=[0], family='wrapped',
                          pool=0, enlarge=1.1, nn=dict(activation='tanh',
                                                       hidden_layer_sizes=(5, 4))))
        specs.append(dict(cls='NeuralBound', d=3, n_networks=2, enlarge=1.1,
                          nn=dict(activation='logistic', hidden_layer_sizes=(7,))))
    else:
        specs.append(dict(cls='NautilusBound', d=3, n_networks=1, periodic=[0], family='wrapped',
                          pool=0, enlarge=1.1, nn=dict(activation='tanh',
                                                       hidden_layer_sizes=(5, 4))))
        specs.append(dict(cls='NautilusBound', d=2, n_networks=2, periodic=None, family='two',
                          pool=0, enlarge=1.1, nn=dict(activation='logistic',
                                                       hidden_layer_sizes=(5,))))
        specs.append(dict(cls='NeuralBound', d=2, n_networks=3, enlarge=1.1))
    for sp in specs:
        sp['seed'] = s
    return specs


def lattice(d, k=None):
    if k is None:
        k = {1: 41, 2: 21, 3: 9, 5: 4, 8: 2}.get(d, 2)
    axes = [np.linspace(0.0, np.nextafter(1.0, 0.0), k)] * d
    return np.stack([g.ravel() for g in np.meshgrid(*axes, indexing='ij')], axis=-1)


def build_states(sp):
    """yields (label, bound, info) for every state of the specification; info has construction
    points (or None), unit flag"""
    from nautilus.bounds import (UnitCube, Ellipsoid, UnitCubeEllipsoidMixture, Union, NeuralBound,
                                 NautilusBound)
    from nautilus.pool import NautilusPool
    cls = sp['cls']
    seed = sp['seed']
    rng = np.random.default_rng(555 + seed)
    if cls == 'UnitCube':
        yield 'fresh', UnitCube.compute(sp['d'], rng=rng), dict(points=None, unit=True)
        return
    if cls in ('Ellipsoid', 'UnitCubeEllipsoidMixture'):
        pts = B.pointset(sp['family'], sp['d'], sp['n'], seed)
        C = Ellipsoid if cls == 'Ellipsoid' else UnitCubeEllipsoidMixture
        b = C.compute(pts, enlarge_per_dim=sp['enlarge'], rng=rng)
        yield 'fresh', b, dict(points=pts, unit=False)
        return
    if cls == 'UnionMany':
        pts = B.pointset(sp['family'], sp['d'], sp['n'], seed)
        C = Ellipsoid if sp['member'] == 'Ellipsoid' else UnitCubeEllipsoidMixture
        u = Union.compute(pts, enlarge_per_dim=sp['enlarge'], n_points_min=sp['npm'],
                          unit=sp['unit'], bound_class=C, rng=rng)
        while len(u.bounds) < sp['members'] and u.split():
            pass
        # (for some seeds fewer than 11 members result: still a valid state of the zoo)
        info = dict(points=np.vstack(u.points_bounds), unit=sp['unit'])
        yield 'split-to-{}-members'.format(len(u.bounds)), u, info
        u2 = pickle.loads(pickle.dumps(u))
        u2.sample(137)
        yield 'many-members-partly-sampled', u2, info
        return
    if cls == 'NeuralBound':
        d = sp['d']
        r = np.random.default_rng(3 + seed)
        pts = r.uniform(size=(150, d))
        log_l = -0.5 * np.sum(((pts - 0.5) / 0.25) ** 2, axis=1)
        log_l_min = np.sort(log_l)[-60]
        kw = dict(hidden_layer_sizes=(6,), max_iter=80)
        kw.update(sp.get('nn') or {})
        b = NeuralBound.compute(pts, log_l, log_l_min, enlarge_per_dim=sp['enlarge'],
                                n_networks=sp['n_networks'], neural_network_kwargs=kw, rng=rng)
        yield 'fresh', b, dict(points=None, unit=False, all_points=pts)
        return
    if cls == 'NautilusBound':
        pool = NautilusPool(scen.FakePool(sp['pool'])) if sp['pool'] else None
        per = None if sp['periodic'] is None else np.array(sp['periodic'])
        b, pts, log_l, log_l_min = B.nautilus_bound(sp['family'], sp['d'], sp['n_networks'], per,
                                                    seed, pool=pool, enlarge=sp['enlarge'],
                                                    nn=sp.get('nn'))
        info = dict(points=None, unit=True, pool=pool, all_points=pts)
        yield 'fresh', b, info
        b2 = pickle.loads(pickle.dumps(b))
        b2.sample(137, pool=pool)
        yield 'partly-sampled', b2, info
        b3 = pickle.loads(pickle.dumps(b2))
        b3.sample(2600, pool=pool)
        yield 'sampled-across-refills', b3, info
        return
    raise ValueError(cls)


# ============================================================================================
# C07
# ============================================================================================

def sound_checks(label, b, info, sp, V):
    """soundness oracle on one bound state"""
    name = type(b).__name__
    d = b.n_dim
    pool = info.get('pool')
    # samples are contained (and inside the cube when restricted)
    n_draw = 300
    c = pickle.loads(pickle.dumps(b))
    if name == 'NautilusBound':
        try:
            with core.time_limit(CALL_LIMIT_S):
                s = c.sample(n_draw, pool=pool)
        except core.Timeout:
            V('sample-hangs', '{} ({}): sample({}) does not return within {} s'.format(
                name, label, n_draw, CALL_LIMIT_S))
            return
    elif name == 'NeuralBound':
        s = c.outer_bound.sample(n_draw)
        s = s[np.asarray(c.contains(s))]
        n_draw = len(s)
    else:
        s = c.sample(n_draw)
    if len(s) != n_draw:
        V('sample-count', '{} {}: sample({}) returned {} rows'.format(name, label, n_draw, len(s)))
    inb = np.asarray(c.contains(s))
    if not np.all(inb):
        V('sample-not-contained', '{} ({}): {} of {} sampled points are not contained'.format(
            name, label, int(np.sum(~inb)), len(s)))
    if info['unit'] and not np.all((s >= 0) & (s < 1)):
        bad = s[~np.all((s >= 0) & (s < 1), axis=1)][0]
        V('sample-outside-cube', '{} ({}): sampled point outside [0,1)^d: {}'.format(
            name, label, bad.tolist()))
    # construction points are enclosed
    pts = info.get('points')
    if pts is not None and sp.get('enlarge', 1.1) > 1:
        if info['unit']:
            pts = pts[np.all((pts >= 0) & (pts < 1), axis=1)]
        inb = np.asarray(b.contains(pts))
        if not np.all(inb):
            V('construction-point-outside', '{} ({}), enlargement {}: {} of {} construction points '
              'are not contained'.format(name, label, sp.get('enlarge'), int(np.sum(~inb)),
                                         len(pts)))
    # neural / nautilus never exceed their outer bound
    probe = lattice(d)
    if info.get('all_points') is not None:
        probe = np.vstack([probe, info['all_points'], s])
    if name == 'NautilusBound':
        # points outside the cube, incl. coordinates exactly 1 and just above it
        out = np.random.default_rng(23).uniform(-0.2, 1.2, size=(400, d))
        edge = np.array(probe[:60], copy=True)
        edge[:20, -1] = 1.0
        edge[20:40, 0] = np.nextafter(1.0, 2.0)
        edge[40:60, -1] = 1.5
        probe = np.vstack([probe, out, edge])
    if name == 'NeuralBound':
        inn = np.asarray(b.contains(probe))
        out = np.asarray(b.outer_bound.contains(probe))
        if np.any(inn & ~out):
            V('neural-exceeds-outer', 'NeuralBound contains {} probe points outside its outer '
              'ellipsoid'.format(int(np.sum(inn & ~out))))
    if name == 'NautilusBound':
        inn = np.asarray(b.contains(probe))
        shifted = probe if b.shift is None else b.shift.transform(probe)
        out = np.asarray(b.outer_bound.contains(shifted))
        if np.any(inn & ~out):
            V('nautilus-exceeds-outer', 'NautilusBound contains {} probe points outside its outer '
              'bound'.format(int(np.sum(inn & ~out))))
        for nbd in b.neural_bounds:
            i2 = np.asarray(nbd.contains(shifted))
            o2 = np.asarray(nbd.outer_bound.contains(shifted))
            if np.any(i2 & ~o2):
                V('neural-exceeds-outer', 'a member NeuralBound exceeds its outer ellipsoid')
        # a periodic coordinate outside [0,1) is wrapped by design; every NON-periodic coordinate of a
        # contained point must lie in the cube
        nonp = [j for j in range(d) if b.shift is None or j not in list(b.shift.periodic)]
        if nonp:
            inside = np.all((probe[:, nonp] >= 0) & (probe[:, nonp] < 1), axis=1)
            if not np.all(inside | ~inn):
                V('nautilus-contains-outside-cube', 'NautilusBound contains {} probe point(s) with a '
                  'non-periodic coordinate outside [0,1), e.g. {}'.format(
                      int(np.sum(inn & ~inside)), probe[inn & ~inside][0].tolist()))


def _c07_job(sp):
    viol = {}
    n_states = 0
    n_trans = 0
    samples = []

    def V(sig, msg, extra=None):
        viol.setdefault(sig, Violation('C07', sig, msg, dict(kind='zoo', spec=sp, extra=extra)))

    try:
        if sp['cls'] == 'Union':
            pts = B.pointset(sp['family'], sp['d'], sp['n'], sp['seed'])

            def extra(u, hist, trimmed):
                out = []
                have = np.vstack(u.points_bounds) if len(u.points_bounds) else np.zeros((0, sp['d']))
                p = have
                if sp['unit']:
                    p = p[np.all((p >= 0) & (p < 1), axis=1)]
                if len(p) and not np.all(u.contains(p)):
                    out.append(('construction-point-outside',
                                'Union[{}] unit={} enlargement {}: {} construction points not '
                                'contained after {}'.format(sp['member'], sp['unit'], sp['enlarge'],
                                                            int(np.sum(~u.contains(p))), hist)))
                return out
            ex = B.UnionExplorer(pts, sp['member'], sp['npm'], sp['enlarge'], sp['unit'],
                                 seeds=(0, 1), depth=sp['depth'], prop='C07', extra=extra,
                                 max_states=300)
            # the C13-specific record oracles are not C07's business: keep sample/containment ones
            ex.run()
            u0 = ex.build()
            for sig, msg in extra(u0, (), None):
                V(sig, msg)
            keep = ('sample-not-contained', 'sample-outside-cube', 'construction-point-outside')
            for sig, v in ex.viol.items():
                if sig in keep or sig.startswith('raises:'):
                    v['replay']['spec'] = sp
                    viol.setdefault(sig, Violation('C07', sig, v['explanation'], v['replay']))
            n_states += ex.states
            n_trans += ex.transitions
            samples = ex.samples[:1]
        else:
            for label, b, info in build_states(sp):
                n_states += 1
                n_trans += 1
                sound_checks(label, b, info, sp, V)
            samples = [dict(spec={k: v for k, v in sp.items() if k != 'seed'})]
    except Exception as e:
        import traceback
        V('raises:{}:{}'.format(sp['cls'], type(e).__name__), 'building/using {} raised {}: {}\n{}'
          .format(sp, type(e).__name__, e, traceback.format_exc()[-800:]))
    return dict(states=n_states, transitions=n_trans, violations=list(viol.values()),
                samples=samples, cls=sp['cls'])


_c07_job.time_limited = True


def run_C07(tier):
    timer = core.Timer()
    specs = zoo_specs(tier, 'C07')
    res = _timeouts('C07', core.pmap(_c07_job, [(sp,) for sp in specs]))
    violations = [v for r in res for v in r['violations']]
    by_cls = {}
    for r in res:
        by_cls[r['cls']] = by_cls.get(r['cls'], 0) + r['states']
    cov = dict(
        states=sum(r['states'] for r in res), transitions=sum(r['transitions'] for r in res),
        traces_validated_against_impl=sum(r['transitions'] for r in res),
        samples=[s for r in res for s in r['samples']][:6], exhaustive=True,
        specifications=len(specs), states_per_class=by_cls,
        explanation='finite product of class x dimension x point family x enlargement x unit flag x '
                    'pool (see DESIGN.md C07) built through the public compute() functions; unions '
                    'are explored over all split/trim histories up to the depth cap with scripted '
                    'GMM seeds; the soundness oracle (samples contained / in cube, construction '
                    'points enclosed, neural and nautilus bounds inside their outer bound) is '
                    'evaluated in every visited state',
        assumptions=['enlargement >= 1+1e-6; point families avoid degenerate (collinear) sets',
                     'generator answers in the top ulps below 1 for the ball radius are outside the '
                     'alphabet (seeded PCG64 streams)'])
    return cov, violations, timer()


# ============================================================================================
# C09
# ============================================================================================

def clone_gen(seed):
    return np.random.default_rng(seed)


def io_checks(label, b, info, sp, V):
    """write/read oracle on one bound state (b is not modified: works on copies)"""
    name = type(b).__name__
    d = b.n_dim
    pool = info.get('pool')
    orig = pickle.loads(pickle.dumps(b))
    gen_a, gen_b = clone_gen(4242), clone_gen(4242)
    B.set_rng(orig, gen_a)
    try:
        back = B.h5_roundtrip(orig, gen_b)
    except Exception as e:
        V('roundtrip-raises:{}:{}'.format(name, type(e).__name__), '{} ({}): write/read raised {}: '
          '{}'.format(name, label, type(e).__name__, e))
        return
    probe = lattice(d)
    if info.get('points') is not None:
        probe = np.vstack([probe, info['points']])
    if info.get('all_points') is not None:
        probe = np.vstack([probe, info['all_points']])
    probe = np.vstack([probe, np.random.default_rng(17).uniform(-0.2, 1.2, size=(2000, d))])
    try:
        a_in = np.asarray(orig.contains(probe))
        b_in = np.asarray(back.contains(probe))
    except Exception as e:
        V('contains-raises-after-read:{}:{}'.format(name, type(e).__name__),
          '{} ({}; {}): contains() of the read-back bound raised {}: {}'.format(
              name, label, {k: v for k, v in sp.items() if k in ('unit', 'member')},
              type(e).__name__, e))
        return
    if not np.array_equal(a_in, b_in):
        V('contains-differs:' + name, '{} ({}): contains() differs for {} of {} probe points after '
          'write/read'.format(name, label, int(np.sum(a_in != b_in)), len(probe)))
    if name in ('NeuralBound',):
        return          # a NeuralBound has neither log_v nor sample()
    try:
        with core.time_limit(CALL_LIMIT_S):
            lva, lvb = orig.log_v, back.log_v
    except core.Timeout:
        V('log_v-hangs-after-read:' + name, '{} ({}): log_v of the bound or of its read-back does not '
          'return within {} s'.format(name, label, CALL_LIMIT_S))
        return
    except Exception as e:
        V('log_v-raises-after-read:{}:{}'.format(name, type(e).__name__), str(e))
        return
    if not (lva == lvb or (np.isnan(lva) and np.isnan(lvb))):
        V('log_v-differs:' + name, '{} ({}): log_v {!r} -> {!r} after write/read'.format(
            name, label, float(lva), float(lvb)))
    # identical future sample stream under a cloned generator (log_v above may have drawn: both
    # generators advanced identically if and only if the states were equal)
    for n in (1, 100, 2500):
        try:
            with core.time_limit(CALL_LIMIT_S):
                if name == 'NautilusBound':
                    sa = orig.sample(n, pool=pool)
                    sb = back.sample(n, pool=pool)
                else:
                    sa = orig.sample(n)
                    sb = back.sample(n)
        except core.Timeout:
            V('sample-hangs-after-read:' + name, '{} ({}): sample({}) of the bound or of its read-back '
              'does not return within {} s'.format(name, label, n, CALL_LIMIT_S))
            return
        except Exception as e:
            V('sample-raises-after-read:{}:{}'.format(name, type(e).__name__),
              '{} ({}): sample({}) raised {}: {}'.format(name, label, n, type(e).__name__, e))
            return
        if sa.shape != sb.shape or not np.array_equal(sa, sb):
            V('stream-differs:' + name, '{} ({}): sample({}) stream differs after write/read '
              '(cloned generator)'.format(name, label, n))
            return
    if core.digest(gen_a.bit_generator.state) != core.digest(gen_b.bit_generator.state):
        V('generator-diverged:' + name, '{} ({}): generators diverged'.format(name, label))
    # incremental update followed by a read == full write
    if hasattr(b, 'update'):
        o2 = pickle.loads(pickle.dumps(b))
        B.set_rng(o2, clone_gen(77))

        def more(x):
            if name == 'NautilusBound':
                x.sample(1500, pool=pool)
            else:
                x.sample(1500)
        try:
            with core.time_limit(CALL_LIMIT_S):
                upd = B.h5_roundtrip(o2, clone_gen(1), update_after=more)
                full = B.h5_roundtrip(o2, clone_gen(1))
        except core.Timeout:
            V('update-hangs:' + name, '{} ({}): sample/update does not return'.format(name, label))
            return
        except Exception as e:
            V('update-raises:{}:{}'.format(name, type(e).__name__), '{} ({}): update()/read raised '
              '{}: {}'.format(name, label, type(e).__name__, e))
            return
        if core.digest(upd, exclude=()) != core.digest(full, exclude=()):
            V('update-differs-from-full-write:' + name, '{} ({}): write; sample; update; read differs '
              'from a full write of the same state'.format(name, label))


def _c09_job(sp):
    viol = {}
    n_states = 0
    samples = []

    def V(sig, msg):
        viol.setdefault(sig, Violation('C09', sig, msg, dict(kind='zoo', spec=sp)))

    try:
        if sp['cls'] == 'Union':
            pts = B.pointset(sp['family'], sp['d'], sp['n'], sp['seed'])
            states = []

            def extra(u, hist, trimmed):
                states.append((hist, pickle.dumps(u)))
                return []
            ex = B.UnionExplorer(pts, sp['member'], sp['npm'], sp['enlarge'], sp['unit'],
                                 seeds=(0, 1), depth=min(sp['depth'], 3), prop='C09', extra=extra,
                                 max_states=60)
            ex.run()
            states.insert(0, ((), pickle.dumps(ex.build())))
            seen = set()
            for hist, pk in states:
                u = pickle.loads(pk)
                k = B.union_key(u)
                if k in seen:
                    continue
                seen.add(k)
                info = dict(points=np.vstack(u.points_bounds), unit=sp['unit'])
                # native rng for the copies
                for variant in ('fresh', 'partly-sampled'):
                    c = pickle.loads(pk)
                    B.set_rng(c, clone_gen(5))
                    if variant == 'partly-sampled':
                        c.sample(137)
                    io_checks('{} after {}'.format(variant, [str(h) for h in hist]), c, info, sp, V)
                    n_states += 1
            samples = [dict(spec={k: v for k, v in sp.items() if k != 'seed'}, states=len(seen))]
        else:
            for label, b, info in build_states(sp):
                n_states += 1
                io_checks(label, b, info, sp, V)
            samples = [dict(spec={k: v for k, v in sp.items() if k != 'seed'})]
    except Exception as e:
        import traceback
        V('harness-or-build-raises:{}:{}'.format(sp['cls'], type(e).__name__),
          '{} raised {}: {}\n{}'.format(sp, type(e).__name__, e, traceback.format_exc()[-800:]))
    return dict(states=n_states, transitions=n_states * 6, violations=list(viol.values()),
                samples=samples, cls=sp['cls'])


IO_OPS = ('s1', 's137', 's1500', 'sdrain', 'update', 'reset')


def _io_apply(b, op, pool, group):
    name = type(b).__name__
    if op == 'update':
        b.update(group)
    elif op == 'reset':
        b.reset()
    elif op == 'sdrain':
        # hand out exactly what is buffered: the proposal cache becomes empty
        n = len(b.points)
        if n:
            if name == 'NautilusBound':
                b.sample(n, pool=pool)
            else:
                b.sample(n)
    else:
        n = int(op[1:])
        if name == 'NautilusBound':
            b.sample(n, pool=pool)
        else:
            b.sample(n)


def _c09_history_job(sp, depth):
    """operation-history search on the incremental-update path: after an initial write, ALL sequences
    over {sample(1), sample(137), sample(1500), update, reset} up to `depth`; after every `update` the
    group is read back and must equal a fresh full write of the live bound (structural digest of the
    read-back objects incl. caches and counters)"""
    import h5py
    viol = {}
    n_seq = 0
    n_chk = 0

    def V(sig, msg, seq):
        viol.setdefault(sig, Violation('C09', sig, msg, dict(kind='history', spec=sp, depth=depth,
                                                             sequence=list(seq))))
    states = list(build_states(sp)) if sp['cls'] != 'Union' else None
    if sp['cls'] == 'Union':
        from nautilus.bounds import Union, Ellipsoid, UnitCubeEllipsoidMixture
        pts = B.pointset(sp['family'], sp['d'], sp['n'], sp['seed'])
        C = Ellipsoid if sp['member'] == 'Ellipsoid' else UnitCubeEllipsoidMixture
        u = Union.compute(pts, enlarge_per_dim=sp['enlarge'], n_points_min=sp['npm'],
                          unit=sp['unit'], bound_class=C, rng=np.random.default_rng(3))
        u.split()
        states = [('split-once', u, dict(unit=sp['unit']))]
    label, b0, info = states[0]
    pool = info.get('pool')
    name = type(b0).__name__
    starts = [(label, pickle.dumps(b0))]
    b1 = pickle.loads(pickle.dumps(b0))
    B.set_rng(b1, clone_gen(98))
    _io_apply(b1, 's137', pool, None)
    starts.append((label + '+partly-sampled', pickle.dumps(b1)))
    for label, pk in starts:
      for L in range(1, depth + 1):
        for seq in itertools.product(IO_OPS, repeat=L):
              if 'update' not in seq or seq[-1] != 'update':
                  continue
              n_seq += 1
              b = pickle.loads(pk)
              B.set_rng(b, clone_gen(99))
              f = h5py.File('nvmc-hist-{}.h5'.format(id(b)), 'w', driver='core', backing_store=False)
              try:
                  g = f.create_group('b')
                  b.write(g)
                  for i, op in enumerate(seq):
                      try:
                          _io_apply(b, op, pool, g)
                      except Exception as e:
                          V('history-raises:{}:{}'.format(op, type(e).__name__),
                            '{}: {} raised {}: {} in sequence {}'.format(name, op, type(e).__name__, e,
                                                                       seq[:i + 1]), seq[:i + 1])
                          break
                      if op == 'update':
                          n_chk += 1
                          upd = type(b).read(g, rng=clone_gen(1))
                          full = B.h5_roundtrip(b, clone_gen(1))
                          if core.digest(upd) != core.digest(full):
                              V('update-differs-from-full-write:' + name,
                                '{} ({}): after write; {} the group read back differs from a full write '
                                'of the same state (cached points {} vs {}, n_sample {} vs {})'.format(
                                    name, label, '; '.join(seq[:i + 1]), len(upd.points),
                                    len(full.points), int(upd.n_sample), int(full.n_sample)),
                                seq[:i + 1])
                              break
              finally:
                  f.close()
    return dict(states=n_seq, transitions=n_chk, violations=list(viol.values()),
                samples=[dict(history_search=dict(cls=sp['cls'], depth=depth, sequences=n_seq,
                                                  checks_after_update=n_chk))], cls='history')


def _c09_any(kind, *args):
    if kind == 'zoo':
        return _c09_job(*args)
    return _c09_history_job(*args)


_c09_any.time_limited = True


def run_C09(tier):
    timer = core.Timer()
    specs = [sp for sp in zoo_specs(tier, 'C09')
             if not (sp['cls'] in ('Ellipsoid', 'UnitCubeEllipsoidMixture') and sp['d'] == 1)]
    depth = 3 if tier == 'quick' else 4
    s = core.SEED
    hist = [dict(cls='Union', member='Ellipsoid', unit=True, family='three', d=2, n=36, enlarge=1.1,
                 npm=4, seed=s),
            dict(cls='Union', member='UnitCubeEllipsoidMixture', unit=False, family='two', d=3, n=30,
                 enlarge=1.1, npm=5, seed=s),
            dict(cls='NautilusBound', d=2, n_networks=0, periodic=None, family='two', pool=0,
                 enlarge=1.1, seed=s),
            dict(cls='NautilusBound', d=2, n_networks=1, periodic=[0], family='wrapped', pool=0,
                 enlarge=1.1, seed=s),
            dict(cls='NautilusBound', d=2, n_networks=0, periodic=[0], family='wrapped', pool=2,
                 enlarge=1.1, seed=s)]
    res = _timeouts('C09', core.pmap(_c09_any, [('history', sp, depth) for sp in hist] +
                                     [('zoo', sp) for sp in specs]))
    violations = [v for r in res for v in r['violations']]
    by_cls = {}
    for r in res:
        by_cls[r['cls']] = by_cls.get(r['cls'], 0) + r['states']
    cov = dict(
        states=sum(r['states'] for r in res), transitions=sum(r['transitions'] for r in res),
        traces_validated_against_impl=sum(r['transitions'] for r in res),
        samples=[s for r in res for s in r['samples']][:8], exhaustive=True,
        specifications=len(specs), states_per_class=by_cls,
        update_history_depth=depth,
        explanation='(1) operation-history search on the incremental-update path: after an initial '
                    'write, all sequences over {sample(1), sample(137), sample(1500), sample(all buffered), update, reset} '
                    'up to the stated depth on unions and nautilus bounds; after every update the '
                    'group read back must equal a full write of the live bound; (2) every bound state of the C07 zoo (all classes, unit T/F, periodic or not, 0-2 '
                    'networks with non-default hyper-parameters, fresh / split / trimmed / partly '
                    'sampled) is written to an in-memory HDF5 group and read back; contains() on a '
                    'lattice + construction points + 2000 stream points, log_v, and three sample() '
                    'streams (1, 100, 2500 points, crossing cache refills) under a cloned generator '
                    'must be bit-identical; write;sample;update;read must equal a full write',
        assumptions=['split() after a read is not demanded (outside the statement)',
                     'dimension 2-8'])
    return cov, violations, timer()


# ============================================================================================

def run(prop, tier):
    return dict(C13=run_C13, C07=run_C07, C09=run_C09)[prop](tier)


def replay(prop, path):
    with open(path) as f:
        rep = json.load(f)
    r = rep['replay']
    if prop == 'C13':
        out = _c13_job(r['job'])
    elif prop == 'C07':
        out = _c07_job(r['spec'])
    elif r.get('kind') == 'history':
        out = _c09_history_job(r['spec'], r['depth'])
    else:
        out = _c09_job(r['spec'])
    hit = [v for v in out['violations'] if v['signature'] == rep['signature']]
    for v in hit:
        print('VIOLATION property={} replay={}'.format(prop, path))
        print(' ', v['signature'], v['explanation'][:500])
    return 1 if hit else 0
