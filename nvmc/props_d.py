"""Engine-D checks: C08 (uniform proposals, calibrated volumes) and C14 (equal-weight posterior)."""
import collections
import os
import json
import math
import pickle

import numpy as np
from scipy.special import logsumexp

from . import core, scen, scenarios
from . import boundmc as B
from . import envmc as E
from .core import Violation, Inconclusive


# ============================================================================================
# C08
# ============================================================================================

def union_specs(tier):
    s = core.SEED
    specs = [
        dict(family='banana', d=2, n=60, member='Ellipsoid', unit=True, enlarge=1.4, splits=3,
             lattice=40),
        dict(family='three', d=2, n=45, member='UnitCubeEllipsoidMixture', unit=True, enlarge=1.6,
             splits=2, lattice=40),
        dict(family='face', d=2, n=40, member='Ellipsoid', unit=True, enlarge=1.5, splits=2,
             lattice=40),
        dict(family='blob', d=2, n=30, member='Ellipsoid', unit=True, enlarge=1.1, splits=0,
             lattice=40),
        dict(family='banana', d=3, n=70, member='Ellipsoid', unit=True, enlarge=1.3, splits=2,
             lattice=12),
        # heavily overlapping members (multiplicity 4-5 -> 12 / 60 thresholds)
        dict(family='blob', d=2, n=80, member='Ellipsoid', unit=True, enlarge=1.8, splits=4,
             lattice=40),
        dict(family='blob', d=2, n=80, member='UnitCubeEllipsoidMixture', unit=True, enlarge=2.5,
             splits=3, lattice=40),
        dict(family='face', d=2, n=80, member='Ellipsoid', unit=True, enlarge=2.0, splits=4,
             lattice=40),
        dict(family='blob', d=3, n=100, member='Ellipsoid', unit=True, enlarge=1.6, splits=4,
             lattice=12),
    ]
    if tier == 'thorough':
        for sp in specs:
            sp['lattice'] = 96 if sp['d'] == 2 else 20
        specs += [
            dict(family='banana', d=2, n=90, member='Ellipsoid', unit=True, enlarge=1.5, splits=5,
                 lattice=64),
            dict(family='four', d=2, n=60, member='Ellipsoid', unit=False, enlarge=2.0, splits=3,
                 lattice=64),
            dict(family='corner', d=2, n=40, member='UnitCubeEllipsoidMixture', unit=True,
                 enlarge=1.5, splits=1, lattice=64),
            dict(family='face', d=3, n=60, member='UnitCubeEllipsoidMixture', unit=True, enlarge=1.4,
                 splits=2, lattice=16),
            dict(family='wrapped', d=2, n=50, member='Ellipsoid', unit=True, enlarge=1.3, splits=2,
                 lattice=64),
            dict(family='three', d=3, n=60, member='Ellipsoid', unit=True, enlarge=1.8, splits=3,
                 lattice=16),
            dict(family='banana', d=2, n=60, member='Ellipsoid', unit=True, enlarge=1.4, splits=3,
                 lattice=64, roundtrip=True),
            dict(family='three', d=2, n=45, member='UnitCubeEllipsoidMixture', unit=True,
                 enlarge=1.6, splits=2, lattice=64, roundtrip=True),
            dict(kind='nautilus-outer', family='two', d=2, lattice=64),
            dict(kind='nautilus-outer', family='wrapped', d=2, lattice=64),
        ]
    # unions whose lowest-density member was trimmed away after sampling (stale per-member caches)
    specs.append(dict(family='three', d=2, n=60, member='Ellipsoid', unit=True, enlarge=1.6, splits=3,
                      lattice=40, trim=1e-9))
    specs.append(dict(family='blob', d=2, n=80, member='UnitCubeEllipsoidMixture', unit=True,
                      enlarge=1.8, splits=4, lattice=40, trim=1e-9))
    # a union with >= 11 members after a checkpoint round trip (two-digit member indices)
    specs.append(dict(family='banana', d=2, n=200, member='Ellipsoid', unit=True, enlarge=1.3,
                      splits=14, lattice=40 if tier == 'quick' else 64, roundtrip=True,
                      min_members=11))
    if tier == 'thorough':
        pass
    else:
        specs += [dict(family='banana', d=2, n=60, member='Ellipsoid', unit=True, enlarge=1.4,
                       splits=3, lattice=32, roundtrip=True),
                  dict(kind='nautilus-outer', family='two', d=2, lattice=32)]
    for sp in specs:
        sp['seed'] = s
        sp.setdefault('kind', 'union')
    return specs


def build_union(sp):
    from nautilus.bounds import Union, Ellipsoid, UnitCubeEllipsoidMixture
    if sp['kind'] == 'nautilus-outer':
        b, pts, log_l, log_l_min = B.nautilus_bound(sp['family'], sp['d'], 0, None, sp['seed'],
                                                    n=200, enlarge=1.3)
        return b.outer_bound, True
    pts = B.pointset(sp['family'], sp['d'], sp['n'], sp['seed'])
    cls = Ellipsoid if sp['member'] == 'Ellipsoid' else UnitCubeEllipsoidMixture
    u = Union.compute(pts, enlarge_per_dim=sp['enlarge'], n_points_min=sp['d'] + 2,
                      unit=sp['unit'], bound_class=cls, rng=np.random.default_rng(11 + sp['seed']))
    for _ in range(sp['splits']):
        u.split()
    if sp.get('trim'):
        # sample first (fills caches), then drop the lowest-density member; a union that cannot be
        # trimmed is not what this specification is about
        u.sample(10)
        if not u.trim(sp['trim']):
            sp['unmet'] = 'trim refused (a single member for this seed)'     # still a valid union
    if len(u.bounds) < sp.get('min_members', 1):
        sp['unmet'] = 'only {} members for this seed'.format(len(u.bounds))
    if sp.get('roundtrip'):
        u = B.h5_roundtrip(u, np.random.default_rng(3))
    return u, sp['unit']


def probe_lattice(u, unit, k):
    """lattice over the bounding box of the union (may stick out of the cube)"""
    d = u.n_dim
    lo = np.full(d, np.inf)
    hi = np.full(d, -np.inf)
    for m in u.bounds:
        dc, ell = E.member_parts(m)
        l = np.zeros(d)
        h = np.ones(d)
        if ell is not None:
            r = np.sqrt(np.diag(np.linalg.inv(np.asarray(ell.A))))
            l[~dc] = np.asarray(ell.c) - r
            h[~dc] = np.asarray(ell.c) + r
        lo = np.minimum(lo, l)
        hi = np.maximum(hi, h)
    lo = lo - 0.02 * (hi - lo)
    hi = hi + 0.02 * (hi - lo)
    axes = [lo[j] + (hi[j] - lo[j]) * (np.arange(k) + 0.5 + 0.137 * j) / k for j in range(d)]
    return np.stack([g.ravel() for g in np.meshgrid(*axes, indexing='ij')], axis=-1)


def _c08_union_job(sp):
    viol = {}

    def V(sig, msg):
        viol.setdefault(sig, Violation('C08', sig, msg, dict(kind='union', spec=sp)))

    u, unit = build_union(sp)
    d = u.n_dim
    nb = len(u.bounds)
    probes = probe_lattice(u, unit, sp['lattice'])
    ins, mult, in_cube, margin = E.multiplicity(u, probes, unit)
    ok = (margin > 1e-6) & (mult > 0)
    probes, ins, mult, in_cube = probes[ok], ins[:, ok], mult[ok], in_cube[ok]
    def skipped(why):
        return dict(violations=list(viol.values()), evaluations=0, distinct=0, probes=0, max_mult=0, M=1,
                    members=nb, spec=dict({k: v for k, v in sp.items() if k != 'seed'}, skipped=why))
    if len(probes) == 0:
        return skipped('no probe further than 1e-6 from every surface')
    max_mult = int(np.max(mult))
    M = 1
    for j in range(1, max_mult + 1):
        M = M * j // math.gcd(M, j)
    # (v) closed-form volume of every member vs its defining matrix; matrix identities
    log_vs = np.array([E.member_log_v(m) for m in u.bounds])
    for i, m in enumerate(u.bounds):
        dc, ell = E.member_parts(m)
        if abs(float(m.log_v) - log_vs[i]) > 1e-9 * max(1.0, abs(log_vs[i])):
            V('member-volume', 'member {}: log_v={!r} but the ball volume / sqrt(det A) gives {!r}'
              .format(i, float(m.log_v), float(log_vs[i])))
        if ell is not None:
            Bm, Bi, A = np.asarray(ell.B), np.asarray(ell.B_inv), np.asarray(ell.A)
            if not np.allclose(Bm @ Bi, np.eye(len(Bm)), atol=1e-8):
                V('matrix:B*B_inv', 'member {}: B B_inv != I'.format(i))
            if not np.allclose(Bi.T @ Bi, A, rtol=1e-7, atol=1e-7 * np.max(np.abs(A))):
                V('matrix:B_inv^T*B_inv', 'member {}: B_inv^T B_inv != A (the sampling frame does '
                  'not match the matrix that defines the region)'.format(i))
        if abs(float(u.log_v_all[i]) - float(m.log_v)) > 1e-12:
            V('log_v_all', 'log_v_all[{}] differs from the member volume'.format(i))
    p_expect = np.exp(log_vs - logsumexp(log_vs))
    # agreement of the oracle's membership with contains() away from the surfaces
    cont = np.array([np.asarray(m.contains(probes)) for m in u.bounds])
    if not np.array_equal(cont, ins):
        V('contains-vs-matrix', 'member contains() disagrees with (x-c)^T A (x-c) < 1 for {} probes '
          'more than 1e-6 away from every surface'.format(int(np.sum(cont != ins))))
    # proposals: every probe from each member that contains it
    prop_list = []      # (member, probe index)
    for i in range(nb):
        for j in np.flatnonzero(ins[i]):
            prop_list.append((i, j))
    # a multiplicity-1 interior probe for padding / guaranteeing one kept point per chunk
    pad = [(int(np.flatnonzero(ins[:, j])[0]), j) for j in np.flatnonzero((mult == 1) & in_cube)]
    if not pad:
        return skipped('no multiplicity-1 interior probe for this seed')
    chunks = []
    cur = [pad[0]]
    for pr in prop_list:
        cur.append(pr)
        if len(cur) == 1000:
            chunks.append(cur)
            cur = [pad[0]]
    if len(cur) > 1:
        k = 0
        while len(cur) < 1000:
            cur.append(pad[k % len(pad)])
            k += 1
        chunks.append(cur)
    kept_count = collections.Counter()
    prop_count = collections.Counter()
    row_info = {}
    n_exec = 0
    thresholds = [(k + 0.5) / M for k in range(M)]
    for ch in chunks:
        assign = [probes[[j for (i, j) in ch if i == mi]] if any(i == mi for i, j in ch)
                  else np.zeros((0, d)) for mi in range(nb)]
        for sh in ('id', 'rev'):
            for t in thresholds:
                try:
                    with core.time_limit(120):
                        rec = E.scripted_refill(u, assign, t, sh)
                except (core.Timeout, ValueError, IndexError, TypeError, AttributeError) as e:
                    if isinstance(e, Inconclusive):
                        raise
                    V('sample-raises:' + type(e).__name__, 'Union.sample raised/hung under scripted '
                      'answers: {}: {}'.format(type(e).__name__, str(e)[:200]))
                    continue
                n_exec += 1
                if np.shape(rec['p']) != np.shape(p_expect) or not np.allclose(
                        rec['p'], p_expect, rtol=1e-9, atol=1e-12):
                    V('multinomial-weights', 'multinomial p = {} but member volumes give {}'.format(
                        np.round(rec['p'], 6).tolist(), np.round(p_expect, 6).tolist()))
                if rec['n'] != 1000 or rec['n_sample'] != 1000:
                    V('n_sample', 'a refill of {} proposals advanced n_sample by {}'.format(
                        rec['n'], rec['n_sample']))
                if rec['n_reject'] != 1000 - len(rec['kept']):
                    V('n_reject', 'n_reject={} after a refill that kept {} of 1000 proposals'.format(
                        rec['n_reject'], len(rec['kept'])))
                lv = float(logsumexp(log_vs) + np.log(1.0 - rec['n_reject'] / rec['n_sample']))
                if abs(rec['log_v'] - lv) > 1e-9:
                    V('log_v-formula', 'log_v={!r} but sum(V_i)*(1-n_reject/n_sample) gives {!r}'
                      .format(rec['log_v'], lv))
                props = rec['proposals']
                pc = collections.Counter(r.tobytes() for r in props)
                kc = collections.Counter(r.tobytes() for r in rec['kept'])
                if sh == 'id' and t == thresholds[0]:
                    # learn multiplicity / cube membership of the actual proposals (x' ~ x)
                    _, pm, pcube, pmarg = E.multiplicity(u, props, unit)
                    for r, m_, c_, g_ in zip(props, pm, pcube, pmarg):
                        row_info[r.tobytes()] = (int(m_), bool(c_), float(g_), r)
                    # proposals outside the cube must have been filtered before shuffle (unit)
                    if unit and not np.all(pcube):
                        V('cube-filter', 'proposals outside the cube reach the acceptance step')
                    n_in = sum(1 for (i, j) in ch if in_cube[j] or not unit)
                    if len(props) != n_in:
                        V('proposal-count', '{} proposals expected after the cube filter, {} seen'
                          .format(n_in, len(props)))
                for b_, n_ in kc.items():
                    if n_ not in (0, pc.get(b_, 0)):
                        V('kept-not-subset', 'kept rows are not a sub-multiset of the proposals')
                    kept_count[(b_, sh)] += n_
                for b_, n_ in pc.items():
                    prop_count[(b_, sh)] += n_
    # (ii) every proposal slot kept in exactly M/m of its M executions
    bad = 0
    worst = None
    for (b_, sh), n_prop in prop_count.items():
        m_, c_, g_, r = row_info.get(b_, (None, None, 0.0, None))
        if m_ is None or g_ <= 1e-7 or m_ == 0:
            continue
        expect = n_prop // m_ if (not unit or c_) else 0
        if kept_count.get((b_, sh), 0) != expect:
            bad += 1
            worst = (r.tolist(), m_, n_prop, kept_count.get((b_, sh), 0), expect, sh)
    if bad:
        V('acceptance-not-1-over-multiplicity',
          '{} proposal slots are not kept in exactly M/m of the M={} threshold executions, e.g. '
          'point {} with multiplicity {} proposed {} times was kept {} times (expected {}; shuffle '
          '{})'.format(bad, M, *worst))
    return dict(violations=list(viol.values()), evaluations=n_exec,
                distinct=len(row_info) * M, probes=len(probes), max_mult=max_mult, M=M,
                members=nb, spec={k: v for k, v in sp.items() if k != 'seed'})


def _c08_ellipsoid_map_job(dims):
    """(vi) Ellipsoid.sample maps scripted (g, u) to c + B g/|g| u^(1/d): enumerated directions x radii"""
    from nautilus.bounds import Ellipsoid
    viol = {}
    n = 0
    for d in dims:
        pts = B.pointset('blob', d, 4 * d + 6, core.SEED)
        ell = Ellipsoid.compute(pts, enlarge_per_dim=1.2, rng=np.random.default_rng(1))
        dirs = []
        for j in range(d):
            for s in (1.0, -1.0):
                e = np.zeros(d)
                e[j] = s
                dirs.append(e)
                if d > 1:
                    f = np.ones(d) * 0.3
                    f[j] = s
                    dirs.append(f)
        radii = [0.0, 1e-12, 0.1, 0.5, 0.9, 1 - 2.0 ** -53]
        G = np.array([g * 3.7 for g in dirs for _ in radii])
        U = np.array([r for _ in dirs for r in radii])
        g = E.ScriptedGenerator('ell')
        g.script['normal'] = lambda size, G=G: G.reshape(size)
        g.script['uniform'] = lambda size, U=U: U.reshape(size)
        ell.rng = g
        out = ell.sample(len(G))
        n += len(G)
        unitv = G / np.linalg.norm(G, axis=1)[:, None]
        exp = np.asarray(ell.c) + (np.asarray(ell.B) @ (unitv * (U ** (1.0 / d))[:, None]).T).T
        if out.shape != exp.shape or not np.allclose(out, exp, rtol=1e-12, atol=1e-14):
            viol.setdefault('ellipsoid-sample-map', Violation(
                'C08', 'ellipsoid-sample-map', 'd={}: Ellipsoid.sample does not map (g, u) to '
                'c + B g/|g| u^(1/d) (max deviation {})'.format(d, float(np.max(np.abs(out - exp)))),
                dict(kind='ellmap', dims=list(dims))))
        xe = out - np.asarray(ell.c)
        q = np.einsum('ni,ij,nj->n', xe, np.asarray(ell.A), xe)
        if not np.allclose(q, U ** (2.0 / d), rtol=1e-6, atol=1e-9):
            viol.setdefault('ellipsoid-radius', Violation(
                'C08', 'ellipsoid-radius', 'd={}: normalised radius of a sample is not u^(1/d)'
                .format(d), dict(kind='ellmap', dims=list(dims))))
        # closed-form volume vs the defining matrix
        lv = E.log_ball(d) - 0.5 * float(np.linalg.slogdet(np.asarray(ell.A))[1])
        if abs(float(ell.log_v) - lv) > 1e-9 * max(1.0, abs(lv)):
            viol.setdefault('ellipsoid-volume', Violation(
                'C08', 'ellipsoid-volume', 'd={}: log_v={!r} but ball volume/sqrt(det A)={!r}'.format(
                    d, float(ell.log_v), lv), dict(kind='ellmap', dims=list(dims))))
        if d == 2:
            # lattice count with a deterministic perimeter bound
            k = 400
            Ai = np.linalg.inv(np.asarray(ell.A))
            r = np.sqrt(np.diag(Ai))
            lo, hi = np.asarray(ell.c) - r, np.asarray(ell.c) + r
            h = (hi - lo) / k
            ax = [lo[j] + h[j] * (np.arange(k) + 0.5) for j in range(2)]
            P = np.stack([a.ravel() for a in np.meshgrid(*ax, indexing='ij')], axis=-1)
            cnt = int(np.sum(ell.contains(P)))
            area = cnt * h[0] * h[1]
            semi = np.sqrt(np.linalg.eigvalsh(Ai))
            perim = 2 * np.pi * np.max(semi)
            bound = perim * np.sqrt(h[0] ** 2 + h[1] ** 2) + h[0] * h[1]
            n += 1
            if abs(area - np.exp(float(ell.log_v))) > bound:
                viol.setdefault('ellipsoid-volume-lattice', Violation(
                    'C08', 'ellipsoid-volume-lattice', 'area counted through contains() {} vs '
                    'exp(log_v) {} (bound {})'.format(area, np.exp(float(ell.log_v)), bound),
                    dict(kind='ellmap', dims=list(dims))))
    return dict(violations=list(viol.values()), evaluations=n, distinct=n, spec=dict(kind='ellmap'))


def _c08_nautilus_job(sp):
    """(vii) nautilus bound: kept iff some neural bound contains; counters at both levels; pool path
    merges what the workers report (recomputed by running the worker function on the same spawned
    generators); also after a write/read."""
    from nautilus.pool import NautilusPool
    viol = {}

    def V(sig, msg):
        viol.setdefault(sig, Violation('C08', sig, msg, dict(kind='nautilus', spec=sp)))

    per = None if sp['periodic'] is None else np.array(sp['periodic'])
    b, pts, log_l, log_l_min = B.nautilus_bound(sp['family'], 2, sp['n_networks'], per, sp['seed'],
                                                n=200)
    b.reset()
    if sp.get('roundtrip'):
        b = B.h5_roundtrip(b, np.random.default_rng(5))
    gen = np.random.default_rng(2024)
    B.set_rng(b, gen)
    n_eval = 0
    if not sp['pool']:
        handed = []
        u = b.outer_bound
        orig_sample = u.sample

        def rec_sample(n_points=100):
            p = orig_sample(n_points)
            handed.append(np.array(p, copy=True))
            return p
        u.sample = rec_sample
        out = b.sample(700)
        del u.sample
        allp = np.vstack(handed)
        n_eval += len(allp)
        shifted = allp
        keep = np.zeros(len(allp), dtype=bool)
        for nbd in b.neural_bounds:
            k = np.asarray(nbd.outer_bound.contains(shifted))
            if nbd.emulator is not None and np.any(k):
                t = nbd.outer_bound.transform(shifted[k])
                k[k] = nbd.emulator.predict(t) > nbd.score_predict_min - 1e-9
            keep |= k
        cached = np.vstack([out if b.shift is None else b.shift.transform(out), b.points])
        if len(cached) != int(np.sum(keep)) or not np.allclose(cached, allp[keep]):
            V('nautilus-filter', 'points kept by the nautilus bound are not exactly the outer-bound '
              'proposals that some neural bound contains ({} kept, {} expected)'.format(
                  len(cached), int(np.sum(keep))))
        if int(b.n_sample) != len(allp) or int(b.n_reject) != len(allp) - int(np.sum(keep)):
            V('nautilus-counters', 'n_sample={} n_reject={} for {} proposals of which {} were kept'
              .format(int(b.n_sample), int(b.n_reject), len(allp), int(np.sum(keep))))
    else:
        pool = NautilusPool(scen.FakePool(sp['pool']))
        pre = pickle.dumps(b)
        st0 = gen.bit_generator.state
        out = b.sample(700, pool=pool)
        # recompute what the workers report
        ref = pickle.loads(pre)
        g2 = np.random.default_rng(0)
        g2.bit_generator.state = st0
        n_jobs = sp['pool']
        n_per = max(700 - 0, 10000) // n_jobs + 1
        seeds = np.random.SeedSequence(g2.integers(2 ** 32 - 1)).spawn(n_jobs)
        tot = dict(ns=0, nr=0, ons=0, onr=0)
        chunks = []
        for sd in seeds:
            w = pickle.loads(pre)
            w._reset_and_sample(n_per, np.random.default_rng(sd))
            chunks.append(w.points)
            tot['ns'] += int(w.n_sample)
            tot['nr'] += int(w.n_reject)
            tot['ons'] += int(w.outer_bound.n_sample)
            tot['onr'] += int(w.outer_bound.n_reject)
            n_eval += int(w.n_sample)
        allp = np.vstack(chunks)
        got = np.vstack([out if b.shift is None else b.shift.transform(out), b.points])
        if got.shape != allp.shape or not np.allclose(got, allp):
            V('pool-points', 'points merged from the pool differ from what the workers produce')
        if (int(b.n_sample), int(b.n_reject)) != (tot['ns'], tot['nr']):
            V('pool-counters', 'merged n_sample/n_reject = {}/{} but the workers report {}/{}'.format(
                int(b.n_sample), int(b.n_reject), tot['ns'], tot['nr']))
        if (int(b.outer_bound.n_sample), int(b.outer_bound.n_reject)) != (tot['ons'], tot['onr']):
            V('pool-outer-counters', 'merged outer-bound counters = {}/{} but the workers report '
              '{}/{}'.format(int(b.outer_bound.n_sample), int(b.outer_bound.n_reject), tot['ons'],
                             tot['onr']))
    lv = float(b.outer_bound.log_v + np.log(1.0 - b.n_reject / b.n_sample))
    if abs(float(b.log_v) - lv) > 1e-12:
        V('nautilus-log_v', 'log_v is not outer volume x accepted fraction')
    lvo = float(logsumexp(b.outer_bound.log_v_all) + np.log(
        1.0 - b.outer_bound.n_reject / b.outer_bound.n_sample))
    if abs(float(b.outer_bound.log_v) - lvo) > 1e-12:
        V('outer-log_v', 'outer log_v is not sum of member volumes x accepted fraction')
    return dict(violations=list(viol.values()), evaluations=n_eval, distinct=n_eval,
                spec={k: v for k, v in sp.items() if k != 'seed'})


def _c08_any(kind, arg):
    if kind == 'union':
        return _c08_union_job(arg)
    if kind == 'ellmap':
        return _c08_ellipsoid_map_job(arg)
    return _c08_nautilus_job(arg)


_c08_any.time_limited = True


def _timeouts(prop, results):
    out = []
    for r in results:
        if isinstance(r, dict) and r.get('timeout'):
            out.append(dict(violations=[Violation(prop, 'hang:job', 'a job did not finish within {} s: {}'.format(
                core.JOB_LIMIT_S, str(r['args'])[:300]), dict(kind='timeout'))], evaluations=0, distinct=0, rows=0,
                sample=None, scenario='?', spec=dict(kind='timeout')))
        else:
            out.append(r)
    return out


def run_C08(tier):
    timer = core.Timer()
    jobs = [('union', sp) for sp in union_specs(tier)]
    jobs.append(('ellmap', (1, 2, 3)))
    jobs.append(('ellmap', (4, 5, 6, 7, 8)))
    for nn in (0, 1):
        for per in (None, [0]):
            for pool in (0, 1, 2, 3):
                if tier == 'quick' and ((pool in (1, 3) and nn == 1) or (per and pool == 1)):
                    continue
                for rt in (False, True):
                    if rt and (tier == 'quick' and pool not in (0, 2)):
                        continue
                    jobs.append(('nautilus', dict(family='wrapped' if per else 'two', n_networks=nn,
                                                  periodic=per, pool=pool, roundtrip=rt,
                                                  seed=core.SEED)))
    res = _timeouts('C08', core.pmap(_c08_any, jobs))
    violations = [v for r in res for v in r['violations']]
    unions = [r for r in res if 'M' in r]
    cov = dict(
        evaluations=sum(r['evaluations'] for r in res),
        distinct_nontrivial=sum(r['distinct'] for r in res),
        exhaustive=True,
        rule='unions built through the real API; every lattice probe (further than 1e-6 from every '
             'surface) is presented to the real Union.sample pipeline as a proposal from EACH member '
             'that contains it (scripted normal/uniform/random of the members), paired with EVERY '
             'acceptance threshold (k+1/2)/M, M = lcm(1..max multiplicity), identity and reversed '
             'shuffle; distinct non-trivial case = (proposal slot, threshold); plus scripted '
             'direction x radius grids for Ellipsoid.sample in d=1..8 and nautilus-bound executions '
             '(serial / FakePool(1..3) / after an HDF5 round trip)',
        unions=[dict(spec=r['spec'], members=r['members'], probes=r['probes'],
                     max_multiplicity=r['max_mult'], thresholds=r['M'], executions=r['evaluations'])
                for r in unions],
        samples=[dict(spec=r['spec'], executions=r['evaluations']) for r in res][:6],
        explanation='(i) multinomial p_i = V_i/sum V; (ii) every proposal at x from a member is kept '
                    'in exactly M/m(x) of M equally spaced thresholds, never outside the cube; '
                    'therefore density = sum_i p_i 1_{E_i}(x)/V_i * 1/m(x) = 1/sum V on the region '
                    'and E[kept/proposed] = |region|/sum V; (iii) counters count exactly proposed '
                    'and not-kept, so exp(log_v) = sum V (1 - n_reject/n_sample) is the unbiased '
                    'volume estimate; the closed-form member volume equals ball volume/sqrt(det A) '
                    'for the matrix that contains() uses',
        assumptions=['probes within 1e-6 of an ellipsoid surface or cube face are dropped',
                     'statistical statement of the property is replaced by exact enumeration of the '
                     'acceptance randomness; the direction/radius map of Ellipsoid.sample is checked '
                     'separately (uniformity of numpy\'s normal/uniform is trusted)'])
    return cov, violations, timer()


# ============================================================================================
# C14
# ============================================================================================

BOOSTS = (0.3, 1.0, 2.5, 10.0)
NTHR = 64


def sampler_states(scn, every, resumed=False):
    """pickles of the sampler along the default path; resumed=True: of a NEW sampler object resumed
    from the checkpoint at those points (what a user gets who reopens a run to draw posteriors)"""
    import shutil
    seed = scn['seed']
    scn = scen.Scenario(scn.name, **{k: v for k, v in scn.items() if k not in ('name', 'seed')})
    scn['seed'] = seed
    root = core.scratch_root() if resumed else None
    path = os.path.join(root, 'ck' + scn['ext']) if resumed else None
    s = scn.build(filepath=path)
    A = scn.run_args()
    out = []
    k = 0
    on = scen.LOG['on']
    scen.LOG['on'] = False
    try:
        while k < 400:
            done = s.run(**A, n_like_max=s.n_like + 1)
            k += 1
            if k % every == 0 or done:
                if resumed:
                    r = scn.build(filepath=path, resume=True)
                    r.filepath = None
                    out.append((k, pickle.dumps(r)))
                else:
                    out.append((k, pickle.dumps(s)))
            if done:
                break
    finally:
        scen.LOG['on'] = on
        if root:
            shutil.rmtree(root, ignore_errors=True)
    return out


def _rows(post, has_blobs):
    pts = post[0]
    if isinstance(pts, dict):
        pts = np.stack([np.asarray(pts[k]) for k in sorted(pts)], axis=-1)
    pts = np.asarray(pts)
    if pts.dtype == object:
        pts = np.array([[np.asarray(r[k])[()] for k in sorted(r)] for r in pts], dtype=float)
    return pts, np.asarray(post[1]), np.asarray(post[2]), (np.asarray(post[3]) if has_blobs else None)


def _c14_job(scn_dict, every, toggle, resumed=False):
    d = dict(scn_dict)
    name = d.pop('name')
    seed = d.pop('seed')
    scn = scen.Scenario(name, **d)
    scn['seed'] = seed
    viol = {}
    n_exec = 0
    n_rows = 0
    sample = None

    def V(sig, msg, k):
        viol.setdefault(sig, Violation('C14', sig, msg, dict(kind='c14', scenario=dict(scn),
                                                             depth=k, every=every, toggle=toggle,
                                                             resumed=resumed)))

    for k, pk in sampler_states(scn, every, resumed):
        s = pickle.loads(pk)
        if toggle and s.explored:
            s.discard_exploration = not bool(s.discard_exploration)
        if int(np.sum(s.shell_n)) == 0:
            continue
        has_blobs = s.blobs is not None
        with np.errstate(all='ignore'):
            before = s.posterior(return_blobs=has_blobs)
        pts, log_w, log_l, blobs = _rows(before, has_blobs)
        if not np.any(np.isfinite(log_w)):
            continue
        d_before = core.digest(list(before) if not isinstance(before[0], dict) else
                               [sorted(before[0].items())] + list(before[1:]))
        n_rows += len(log_w)
        for boost in BOOSTS:
            with np.errstate(all='ignore'):
                r = np.exp(log_w - np.max(log_w)) * boost
            fl = np.floor(r)
            fr = r - fl
            ambiguous = (np.abs(r - np.round(r)) < 1e-9) | (np.abs(
                (fr * NTHR - 0.5) - np.round(fr * NTHR - 0.5)) < 1e-6)
            upper = np.zeros(len(r), dtype=int)
            for kk in range(NTHR):
                thr = (kk + 0.5) / NTHR
                g = E.ScriptedGenerator('sampler')
                g.script['random'] = lambda size, thr=thr: np.full(size, thr)
                real = s.rng
                s.rng = g
                try:
                    with np.errstate(all='ignore'):
                        res = s.posterior(equal_weight=True, equal_weight_boost=boost,
                                          return_blobs=has_blobs)
                except Inconclusive:
                    raise
                except Exception as e:
                    V('raises:' + type(e).__name__, 'posterior(equal_weight=True, equal_weight_boost={}) '
                      'raised {}: {}{}'.format(boost, type(e).__name__, str(e)[:200],
                                               ' (sampler resumed from file)' if resumed else ''), k)
                    break
                finally:
                    s.rng = real
                n_exec += 1
                op, ow, ol, ob = _rows(res, has_blobs)
                # rows are the input rows in original order: recover multiplicities by a merge walk
                mult = np.zeros(len(r), dtype=int)
                i = 0
                okwalk = True
                for j in range(len(op)):
                    while i < len(pts) and not np.array_equal(op[j], pts[i]):
                        i += 1
                    if i == len(pts):
                        okwalk = False
                        break
                    mult[i] += 1
                    if ol[j] != log_l[i] and not (np.isnan(ol[j]) and np.isnan(log_l[i])):
                        V('row-log_l', 'a repeated row does not carry the log-likelihood of its '
                          'source row', k)
                    if has_blobs and ob[j].tobytes() != blobs[i].tobytes():
                        V('row-blob', 'a repeated row does not carry the blob of its source row '
                          '(boost {})'.format(boost), k)
                if not okwalk:
                    V('order', 'equal-weight rows are not the weighted rows in their original order '
                      '(boost {}, threshold {})'.format(boost, thr), k)
                    continue
                lo_ok = (mult == fl) | (mult == fl + 1) | ambiguous
                if not np.all(lo_ok):
                    i0 = int(np.flatnonzero(~lo_ok)[0])
                    V('multiplicity', 'row with relative weight x boost r={!r} was repeated {} times '
                      '(boost {}, threshold {})'.format(float(r[i0]), int(mult[i0]), boost, thr), k)
                upper += (mult == fl + 1).astype(int)
                if boost <= 1 and np.any(mult > 1):
                    V('repeat-with-boost<=1', 'a row was repeated with boost {}'.format(boost), k)
                if len(ow) and (not np.all(ow == ow[0]) or abs(float(logsumexp(ow))) > 1e-9):
                    V('weights', 'returned weights are not equal and normalised (boost {})'.format(
                        boost), k)
                if not (len(op) == len(ow) == len(ol)) or (has_blobs and len(ob) != len(op)):
                    V('lengths', 'returned arrays differ in length', k)
            dev = np.abs(upper - NTHR * fr)
            badexp = (dev >= 1) & ~ambiguous & (r > 0)
            if np.any(badexp):
                i0 = int(np.flatnonzero(badexp)[0])
                V('expectation', 'row with r={!r}: upper multiplicity in {} of {} threshold '
                  'executions, expected {:.2f} (boost {})'.format(
                      float(r[i0]), int(upper[i0]), NTHR, float(NTHR * fr[i0]), boost), k)
            if np.any((r == 0) & (upper > 0)):
                V('zero-weight-row-returned', 'a zero-weight sample was returned', k)
        with np.errstate(all='ignore'):
            after = s.posterior(return_blobs=has_blobs)
        d_after = core.digest(list(after) if not isinstance(after[0], dict) else
                              [sorted(after[0].items())] + list(after[1:]))
        if d_after != d_before:
            V('weighted-posterior-changed', 'posterior() differs before and after the equal-weight '
              'calls', k)
        if sample is None:
            sample = dict(scenario=scn.name, depth=k, rows=int(len(log_w)),
                          zero_weight_rows=int(np.sum(~np.isfinite(log_w))),
                          boosts=list(BOOSTS), thresholds=NTHR)
    return dict(violations=list(viol.values()), evaluations=n_exec, rows=n_rows, sample=sample,
                scenario=scn.name)


_c14_job.time_limited = True


def run_C14(tier):
    timer = core.Timer()
    if tier == 'quick':
        names, every = ['half', 'blob_two_obj', 'gauss_d'], 6
    else:
        names, every = ['half', 'blob_two_obj', 'gauss_d', 'blob_float', 'two', 'blob_struct_dictfn',
                        'blob_int_vec', 'wrap_net'], 1
    jobs = []
    for s in scenarios.get(names):
        jobs.append((dict(s), every, False))
        jobs.append((dict(s), every, True))
        jobs.append((dict(s), every * 2, False, True))      # states of a sampler resumed from file
    res = _timeouts('C14', core.pmap(_c14_job, jobs))
    violations = [v for r in res for v in r['violations']]
    cov = dict(
        evaluations=sum(r['evaluations'] for r in res),
        distinct_nontrivial=sum(r['rows'] for r in res) * len(BOOSTS),
        exhaustive=True,
        rule='weight vectors of real sampler states along the default path of each scenario (every '
             '{} batches, both discard views) x boosts {} x ALL {} rounding thresholds (k+1/2)/{} '
             'scripted as the answer of sampler.rng.random; also on samplers RESUMED from the checkpoint '
             'at those points; distinct non-trivial case = (weighted '
             'row, boost)'.format(every, list(BOOSTS), NTHR, NTHR),
        samples=[r['sample'] for r in res if r['sample']][:5],
        assumptions=['rows whose relative weight x boost lies within 1e-9 of an integer, or whose '
                     'fractional part lies within 1e-6/64 of a threshold, are excluded from the '
                     'multiplicity/expectation clauses (rounding of the oracle vs implementation)'])
    return cov, violations, timer()


# ============================================================================================

def run(prop, tier):
    return dict(C08=run_C08, C14=run_C14)[prop](tier)


def replay(prop, path):
    with open(path) as f:
        rep = json.load(f)
    r = rep['replay']
    if prop == 'C14':
        out = _c14_job(r['scenario'], r['every'], r['toggle'], r.get('resumed', False))
    elif r['kind'] == 'union':
        out = _c08_union_job(r['spec'])
    elif r['kind'] == 'ellmap':
        out = _c08_ellipsoid_map_job(tuple(r['dims']))
    else:
        out = _c08_nautilus_job(r['spec'])
    hit = [v for v in out['violations'] if v['signature'] == rep['signature']]
    for v in hit:
        print('VIOLATION property={} replay={}'.format(prop, path))
        print(' ', v['signature'], v['explanation'][:500])
    return 1 if hit else 0
