"""Fresh-process replay of the default (all-`step`) path of a scenario; prints the per-depth state
keys as JSON. Run twice by every Engine-A check with different PYTHONHASHSEED / legacy numpy seed /
COLUMNS to prove that all nondeterminism is owned (DESIGN.md section 1)."""
import json
import os
import sys


def main():
    spec = json.loads(sys.argv[1])
    import numpy as np
    np.random.seed(int(os.environ.get('NVMC_LEGACY_SEED', '0')))
    from nvmc import scen, smc
    d = dict(spec['scenario'])
    name = d.pop('name')
    seed = d.pop('seed')
    scn = scen.Scenario(name, **d)
    scn['seed'] = seed
    n = int(spec['depth'])
    keys, _ = smc.replay_path(scn, [('step',)] * n)
    print('KEYS ' + json.dumps(keys))


if __name__ == '__main__':
    main()
