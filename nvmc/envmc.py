"""Engine D: enumeration of environment answers through scripted generators (C08, C14, C16 witness).

A ScriptedGenerator is a duck-typed numpy.random.Generator whose answers come from per-method queues
(or per-method functions) filled by the explorer. One instance per OBJECT so that the script does not
depend on the order in which different objects draw. A draw nobody scripted is Inconclusive (exit 2),
never a violation."""
import math
import pickle

import numpy as np
from scipy.special import gammaln, logsumexp

from . import core
from .core import Inconclusive


class ScriptedGenerator:
    def __init__(self, name=''):
        self.name = name
        self.script = {}        # method -> list of answers or a callable(*args, **kw)
        self.log = []           # (method, args summary)

    def _answer(self, method, *a, **k):
        self.log.append((method, a, k))
        s = self.script.get(method)
        if s is None:
            raise Inconclusive('unscripted draw {}.{}{}'.format(self.name, method, (a, k)))
        if callable(s):
            return s(*a, **k)
        if not s:
            raise Inconclusive('script of {}.{} exhausted'.format(self.name, method))
        return s.pop(0)

    def random(self, size=None):
        return self._answer('random', size)

    def uniform(self, low=0.0, high=1.0, size=None):
        return self._answer('uniform', size)

    def normal(self, loc=0.0, scale=1.0, size=None):
        return self._answer('normal', size)

    def multinomial(self, n, pvals, size=None):
        return self._answer('multinomial', n, np.array(pvals, copy=True))

    def shuffle(self, x, axis=0):
        return self._answer('shuffle', x)

    def integers(self, *a, **k):
        return self._answer('integers', *a, **k)

    def choice(self, a, size=None, replace=True, p=None):
        return self._answer('choice', a, size, replace)


# --------------------------------------------------------------------------------------------
# geometry oracle (independent of contains(): uses A and c, not B_inv)
# --------------------------------------------------------------------------------------------

def log_ball(d):
    return 0.5 * d * math.log(math.pi) - float(gammaln(0.5 * d + 1))


def member_parts(m):
    """(dim_cube mask or None, ellipsoid or None) of an Ellipsoid / UnitCubeEllipsoidMixture"""
    if type(m).__name__ == 'Ellipsoid':
        return np.zeros(m.n_dim, dtype=bool), m
    return np.asarray(m.dim_cube, dtype=bool), m.ellipsoid


def member_q(m, x):
    """returns (inside, margin) for points x: inside by the quadratic form (x-c)^T A (x-c) < 1 on the
    ellipsoid dimensions and [0,1) on the cube dimensions; margin = distance-like slack"""
    dc, ell = member_parts(m)
    x = np.atleast_2d(x)
    inside = np.ones(len(x), dtype=bool)
    margin = np.full(len(x), np.inf)
    if np.any(dc):
        xc = x[:, dc]
        inside &= np.all((xc >= 0) & (xc < 1), axis=1)
        margin = np.minimum(margin, np.min(np.minimum(np.abs(xc), np.abs(1 - xc)), axis=1))
    if ell is not None:
        xe = x[:, ~dc] - np.asarray(ell.c)
        q = np.einsum('ni,ij,nj->n', xe, np.asarray(ell.A), xe)
        inside &= q < 1
        margin = np.minimum(margin, np.abs(q - 1))
    return inside, margin


def member_log_v(m):
    dc, ell = member_parts(m)
    if ell is None:
        return 0.0
    de = int(np.sum(~dc))
    return log_ball(de) - 0.5 * float(np.linalg.slogdet(np.asarray(ell.A))[1])


def multiplicity(u, x, unit):
    ins = []
    marg = np.full(len(x), np.inf)
    for m in u.bounds:
        i, g = member_q(m, x)
        ins.append(i)
        marg = np.minimum(marg, g)
    mult = np.sum(ins, axis=0)
    in_cube = np.all((x >= 0) & (x < 1), axis=1)
    if unit:
        marg = np.minimum(marg, np.min(np.minimum(np.abs(x), np.abs(1 - x)), axis=1))
    return np.array(ins), mult, in_cube, marg


# --------------------------------------------------------------------------------------------
# scripted execution of Union.sample
# --------------------------------------------------------------------------------------------

def script_member(m, xs):
    """fills the member's generators so that its sample(len(xs)) proposes exactly xs (up to rounding)"""
    dc, ell = member_parts(m)
    xs = np.atleast_2d(xs)
    n = len(xs)
    if type(m).__name__ != 'Ellipsoid' and m.cube is not None:
        g = ScriptedGenerator('cube')
        col = xs[:, dc].copy()
        g.script['random'] = lambda size, col=col: col.reshape(size)
        m.cube.rng = g
    if ell is not None:
        g = ScriptedGenerator('ellipsoid')
        t = np.einsum('ij,nj->ni', np.asarray(ell.B_inv), xs[:, ~dc] - np.asarray(ell.c))
        de = t.shape[1]
        r = np.sqrt(np.sum(t * t, axis=1))
        # a zero vector has no direction: nudge (probe exactly at a centre)
        t = np.where(r[:, None] == 0, 1e-9, t)
        r = np.sqrt(np.sum(t * t, axis=1))
        g.script['normal'] = lambda size, t=t: t.reshape(size)
        g.script['uniform'] = lambda size, r=r, de=de: (r ** de).reshape(size if size is not None
                                                                         else r.shape)
        ell.rng = g


def scripted_refill(u, assign, thr, shuffle_mode):
    """ONE refill of a copy of union `u`: member i proposes the points assign[i] (sum of lengths must
    be 1000), the acceptance draw is `thr` for every proposal, shuffle is identity or reversal.
    returns dict(p, proposals (after cube filter, shuffled), kept, n_sample, n_reject, log_v)"""
    c = pickle.loads(pickle.dumps(u))
    c.reset()
    for m, xs in zip(c.bounds, assign):
        if len(xs):
            script_member(m, xs)
    g = ScriptedGenerator('union')
    rec = {}

    def multinomial(n, pvals):
        rec['n'] = n
        rec['p'] = pvals
        return np.array([len(a) for a in assign])

    def shuffle(x):
        if shuffle_mode == 'rev':
            x[...] = x[::-1].copy()
        rec['proposals'] = np.array(x, copy=True)

    def random(size):
        rec['n_random'] = size
        return np.full(size, thr)
    g.script['multinomial'] = multinomial
    g.script['shuffle'] = shuffle
    g.script['random'] = random
    c.rng = g
    first = c.sample(1)       # every chunk holds a multiplicity-1 interior probe: exactly one refill
    rec['kept'] = np.vstack([first, c.points])
    rec['n_sample'] = int(c.n_sample)
    rec['n_reject'] = int(c.n_reject)
    rec['log_v'] = float(c.log_v)
    rec['log_v_all'] = np.array(c.log_v_all, dtype=float)
    return rec


# --------------------------------------------------------------------------------------------
# C16 end-to-end witness
# --------------------------------------------------------------------------------------------

def periodic_witness(viol):
    """A periodic NautilusBound (built through compute(), n_networks=0) whose outer mixture samples
    dimension 0 from the unit range: the scripted random() proposes, in the shifted frame, every float
    within 16 ulps of the inverse wrap position (1/2 - centre). Every returned sample must lie in
    [0,1)^d and be contained. Returns the number of scripted proposals executed."""
    from nautilus.bounds import NautilusBound
    r = np.random.default_rng(5)
    n = 300
    pts = r.uniform(size=(n, 2))
    # dimension 0: a gap (0.75, 0.85) -> centre ~ 0.3 ; dimension 1: narrow
    x0 = r.uniform(0.85, 1.75, size=n) % 1.0
    pts[:, 0] = x0
    pts[:, 1] = 0.5 + 0.02 * r.normal(size=n)
    log_l = -0.5 * ((pts[:, 1] - 0.5) / 0.02) ** 2
    b = NautilusBound.compute(pts, log_l, np.sort(log_l)[40], np.log(0.5), n_networks=0,
                              periodic=np.array([0]), n_points_min=3000,
                              rng=np.random.default_rng(1))
    c = float(b.shift.centers[0])
    mix = b.outer_bound.bounds[0]
    if len(b.outer_bound.bounds) != 1 or not bool(mix.dim_cube[0]) or bool(mix.dim_cube[1]):
        raise Inconclusive('witness bound does not have the expected (cube, ellipsoid) layout')
    crit = (0.5 - c) % 1.0
    xs = [crit]
    a = bb = crit
    for _ in range(16):
        a = np.nextafter(a, 0.0)
        bb = np.nextafter(bb, 1.0)
        xs += [a, bb]
    xs += [0.0, float(np.nextafter(1.0, 0.0)), 0.25]
    xs = np.array(sorted(xs))
    probes = np.stack([xs, np.full(len(xs), float(mix.ellipsoid.c[0]) + 0.3 * float(
        mix.ellipsoid.B[0, 0]))], axis=-1)
    n_exec = 0
    k = 1000 // len(probes) + 1
    allp = np.tile(probes, (k, 1))[:1000]
    u = b.outer_bound
    script_member(u.bounds[0], allp)
    g = ScriptedGenerator('union')
    g.script['multinomial'] = lambda n, p: np.array([1000])
    g.script['shuffle'] = lambda x: None
    g.script['random'] = lambda size: np.full(size, 0.5)
    u.rng = g
    u.cube.rng = g
    out = b.sample(1000)
    n_exec = len(out)
    if len(out) != 1000:
        raise Inconclusive('witness produced {} samples'.format(len(out)))
    bad = ~np.all((out >= 0) & (out < 1), axis=1)
    if np.any(bad):
        viol.setdefault('witness:sample-outside-unit-cube', (
            'periodic NautilusBound (centre {!r}) returned the sample {} for the proposal {!r} just '
            'below the inverse wrap position'.format(c, out[bad][0].tolist(),
                                                     float(allp[bad][0][0])),
            dict(kind='witness', center=c)))
    inb = np.asarray(b.contains(out))
    if not np.all(inb | bad):
        viol.setdefault('witness:sample-not-contained', (
            'periodic NautilusBound (centre {!r}) does not contain its own sample {}'.format(
                c, out[~inb & ~bad][0].tolist()), dict(kind='witness', center=c)))
    return n_exec


def periodic_pool_witness(viol):
    """the shift applied on exit from sample() must be the inverse of the one applied on entry to
    contains() also when the points come from pool workers: periodic NautilusBounds (mode wrapped around
    the boundary) sampled serially and through FakePool(1..3); every sample must be contained and lie
    in the cube. Returns the number of samples checked."""
    from nautilus.pool import NautilusPool
    from . import boundmc as B, scen
    n = 0
    for per in ([0], [0, 1]):
        for size in (0, 1, 2, 3):
            pool = NautilusPool(scen.FakePool(size)) if size else None
            b, pts, log_l, log_l_min = B.nautilus_bound('wrapped', 2, 0, np.array(per), core.SEED,
                                                        pool=pool)
            try:
                with core.time_limit(120):
                    out = b.sample(400, pool=pool)
            except core.Timeout:
                viol.setdefault('witness:pool-sample-hangs', (
                    'periodic={} pool={}: sample() does not return'.format(per, size),
                    dict(kind='poolwitness')))
                continue
            n += len(out)
            ok = np.asarray(b.contains(out)) & np.all((out >= 0) & (out < 1), axis=1)
            if not np.all(ok):
                viol.setdefault('witness:pool-sample-not-contained', (
                    'periodic={} pool of {}: {} of {} samples are not contained in the bound that '
                    'produced them (shift on exit of sample() is not the inverse of the shift on entry '
                    'to contains())'.format(per, size or 'none', int(np.sum(~ok)), len(out)),
                    dict(kind='poolwitness')))
    return n
