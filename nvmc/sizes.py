"""tuning helper: python -m nvmc.sizes C05 quick  -> per-exploration sizes (not a check)"""
import sys
from . import core, scenarios
from .props_a import SCENARIOS, VARIANTS, _any_job

if __name__ == '__main__':
    prop, tier = sys.argv[1], sys.argv[2]
    entries = sys.argv[3:] or SCENARIOS[prop][tier]
    pairs = []
    for e, s in zip(entries, scenarios.get([e.split(':')[0] for e in entries])):
        vs = e.split(':')[1].split('+') if ':' in e else VARIANTS[prop][tier]
        pairs += [(s, v) for v in vs]
    res = core.pmap(_any_job, [('explore', prop, tier, dict(s), v) for s, v in pairs])
    for (s, v), r in zip(pairs, res):
        print('{:22s} {:14s} states={:5d} trans={:5d} depth={:3d} exc={} wall={:6.1f} viol={} cap={}'.format(
            s.name, v, r['states'], r['transitions'], r['max_depth'], r['exceptions'], r['wall'],
            len(r['violations']), r['capped']))
        for x in sorted(set(x['signature'] for x in r['violations']))[:5]:
            print('      ', x)
