"""Scenario catalog of Engine A (a deterministic pairwise-style selection over the configuration
alphabet of DESIGN.md section 2; the product is not taken)."""
from .scen import Scenario

NN = dict(hidden_layer_sizes=(6,), max_iter=60)


def catalog():
    c = {}

    def add(name, **kw):
        c[name] = Scenario(name, **kw)

    # small unimodal runs (fast; used by quick tiers)
    add('gauss', like='gauss', n_live=30, n_batch=15, n_eff=100, f_live=0.1)
    add('empty', like='gauss', n_live=20, n_update=4, n_batch=4, n_eff=60, f_live=0.1,
        n_points_min=4, want='removed')
    add('empty_d', like='gauss', n_live=20, n_update=4, n_batch=4, n_eff=15, f_live=0.1,
        n_points_min=4, want='removed', discard=True)
    add('empty2', like='gauss', n_live=20, n_update=4, n_batch=4, n_eff=40, f_live=0.1,
        n_points_min=4, want='removed2')
    add('empty2_d', like='gauss', n_live=20, n_update=4, n_batch=4, n_eff=15, f_live=0.1,
        n_points_min=4, want='removed2', discard=True)
    add('gauss_t', like='gauss', n_live=30, n_batch=15, n_eff=30, f_live=0.1)
    add('nlb', like='gauss', n_live=30, n_batch=10, n_like_new_bound=30, n_eff=60, f_live=0.2)
    add('nlb_ring', like='ring', n_live=40, n_batch=20, n_like_new_bound=60, n_eff=100,
        f_live=0.1, n_points_min=5)
    add('gauss_s', like='gauss', n_live=30, n_batch=15, n_eff=320, f_live=0.1)
    add('gauss_d', like='gauss', n_live=30, n_batch=30, n_eff=40, f_live=0.1, discard=True)
    add('gauss_net', like='gauss', n_live=40, n_batch=20, n_networks=1, n_eff=60, f_live=0.15)
    add('two', like='two', n_live=60, n_batch=20, n_eff=150, f_live=0.1, n_points_min=5)
    add('ring_net', like='ring', n_live=50, n_batch=25, n_networks=1, n_eff=150, f_live=0.1,
        n_points_min=5)
    add('funnel_net', like='funnel', n_live=60, n_batch=10, n_networks=1, n_eff=100, f_live=0.1,
        n_points_min=5)
    add('funnel', like='funnel', n_live=60, n_batch=10, n_eff=100, f_live=0.1, n_points_min=5)
    add('nuisance', like='nuis', n_live=40, n_batch=20, n_eff=100, f_live=0.1)
    add('nuisance3_net', like='nuis', n_dim=3, n_live=40, n_batch=20, n_eff=60, f_live=0.1,
        n_networks=1, discard=True)
    add('two_split', like='two', n_live=60, n_batch=20, n_eff=150, f_live=0.1, n_points_min=5,
        split_threshold=1.0)
    add('ring_split', like='ring', n_live=80, n_batch=20, n_eff=150, f_live=0.1, n_points_min=5,
        split_threshold=0.3)
    add('ring_split_net', like='ring', n_live=80, n_batch=20, n_eff=80, f_live=0.1, n_points_min=5,
        split_threshold=0.3, n_networks=1, discard=True)
    add('const', like='const', n_live=30, n_batch=15, n_eff=100, f_live=0.1)
    add('g5', like='gwide', n_dim=5, n_live=60, n_batch=30, n_eff=100, f_live=0.15, n_points_min=8)
    add('net2_tanh', like='gauss', n_live=40, n_batch=20, n_networks=2, n_eff=60, f_live=0.15,
        nn=dict(hidden_layer_sizes=(5, 4), activation='tanh', max_iter=60), pool_s=3, ext='.hdf5',
        pathlib=True, discard=True)
    add('cross_split', like='cross', n_live=100, n_batch=25, n_eff=100, f_live=0.1, n_points_min=6,
        split_threshold=1.0)
    add('ring_pend_d', like='ring', n_live=50, n_batch=25, n_networks=1, n_eff=40, f_live=0.1,
        n_points_min=5, discard=True, want='pending')
    add('faint_trim', like='faint', n_live=200, n_batch=50, n_eff=50, f_live=0.05, n_points_min=10,
        seed=3, want='trim')
    add('corr', like='corr', n_live=60, n_batch=20, n_eff=100, f_live=0.1)
    add('vec_pool', like='gauss', blob='float', vectorized=True, pool_l=2, n_live=30, n_batch=14,
        n_eff=80, f_live=0.1)
    add('enlarge25', like='gauss', n_live=40, n_batch=20, n_eff=20, f_live=0.1, enlarge_per_dim=2.5,
        discard=True, want='removed')
    add('long_b5', like='gauss', n_live=60, n_batch=5, n_eff=2300, f_live=0.01)
    add('obj_vec', like='gauss', prior='object', vectorized=True, n_dim=3, n_live=40, n_batch=20,
        n_eff=80, f_live=0.1, blob='float')
    add('gauss_stale', like='gauss', n_live=30, n_batch=15, n_eff=100, f_live=0.1, stale_file=True)
    add('half', like='half', n_live=40, n_batch=20, n_eff=120, f_live=0.1)
    add('plateau', like='plateau', n_live=40, n_batch=20, n_eff=120, f_live=0.1)
    add('wrap', like='wrap', n_live=40, n_batch=20, n_eff=120, f_live=0.1, periodic=[0])
    add('wrap_net', like='wrap', n_live=40, n_batch=20, n_eff=60, f_live=0.1, periodic=[0],
        n_networks=1, discard=True)
    add('wrap_pool_s', like='wrap', n_live=40, n_batch=20, n_eff=100, f_live=0.1, periodic=[0],
        pool_s=2)
    add('g3_pool_s', like='gauss', n_dim=3, n_live=40, n_batch=20, n_eff=100, f_live=0.1,
        pool_s=2, n_networks=1)
    add('two_pool_s', like='two', n_live=60, n_batch=20, n_eff=120, f_live=0.1, n_points_min=5,
        pool_s=2)
    add('b1', like='gauss', n_live=10, n_batch=1, n_update=3, n_eff=20, f_live=0.3,
        n_points_min=4)
    add('b7_update', like='gauss', n_live=30, n_batch=7, n_update=10, n_eff=50, f_live=0.15)
    add('nofile', like='gauss', n_live=30, n_batch=15, n_eff=100, f_live=0.1, file=False)
    # blobs x evaluation modes
    add('blob_float', like='gauss', blob='float', n_live=30, n_batch=15, n_eff=80, f_live=0.1)
    add('blob_int_vec', like='gauss', blob='int', vectorized=True, n_live=30, n_batch=15, n_eff=80,
        f_live=0.1)
    add('blob_two_obj', like='two', blob='two', prior='object', n_live=50, n_batch=20, n_eff=60,
        f_live=0.1, n_points_min=5, discard=True)
    add('blob_array_pool', like='gauss', blob='array', pool_l=2, n_live=30, n_batch=14, n_eff=80,
        f_live=0.1)
    add('blob_struct_dictfn', like='gauss', blob='struct', prior='dictfn', n_live=30, n_batch=15,
        n_eff=80, f_live=0.1)
    add('blob_f32_inplace', like='half', blob='f32', prior='inplace', n_live=40, n_batch=20,
        n_eff=80, f_live=0.1)
    add('blob_float_b1', like='gauss', blob='float', n_live=10, n_batch=1, n_update=3, n_eff=15,
        f_live=0.3, n_points_min=4)
    add('blob_array_b1', like='gauss', blob='array', n_live=10, n_batch=1, n_update=3, n_eff=15,
        f_live=0.3, n_points_min=4)
    add('blob_two_b2_vec', like='gauss', blob='two', vectorized=True, n_live=12, n_batch=2,
        n_update=4, n_eff=20, f_live=0.3, n_points_min=4)
    add('blob_struct_b1', like='gauss', blob='struct', n_live=10, n_batch=1, n_update=3, n_eff=15,
        f_live=0.3, n_points_min=4)
    add('vec_inplace', like='ring', vectorized=True, prior='inplace', n_live=40, n_batch=20,
        n_eff=100, f_live=0.1, n_points_min=5)
    add('obj_array_vec', like='gauss', prior='object_array', vectorized=True, blob='float',
        n_live=30, n_batch=15, n_eff=80, f_live=0.1)
    add('dictfn_vec_net', like='gauss', prior='dictfn', vectorized=True, blob='int', n_networks=1,
        n_live=40, n_batch=20, n_eff=60, f_live=0.1, discard=True)
    add('pool_l3', like='two', pool_l=3, n_live=50, n_batch=21, n_eff=100, f_live=0.1,
        n_points_min=5, blob='two')
    return c


def get(names):
    c = catalog()
    return [c[n].resolve() for n in names]
