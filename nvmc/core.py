"""Shared infrastructure: structural digests, evidence files, known findings, violations,
the parallel runner and scratch directories."""
import contextlib
import hashlib
import io
import json
import numbers
import os
import shutil
import struct
import sys
import tempfile
import time
import traceback
import functools

import numpy as np

from . import VERIF

SEED = int(os.environ.get('VERIF_SEED', '0') or 0)
# evidence/ and replays/ go to /verif unless a mutant run redirects them (tools_seed.py)
OUT = os.environ.get('NVMC_OUT') or VERIF


# --------------------------------------------------------------------------------------------
# structural digest
# --------------------------------------------------------------------------------------------

def _h():
    return hashlib.sha256()


def _feed_scalar(h, v):
    """Scalars are normalised BY VALUE: a resumed sampler holds numpy.int64/numpy.bool_ where a
    fresh one holds int/bool (DESIGN.md pitfall)."""
    if isinstance(v, (bool, np.bool_)):
        h.update(b'i' + str(int(v)).encode())
    elif isinstance(v, numbers.Integral):
        h.update(b'i' + str(int(v)).encode())
    elif isinstance(v, numbers.Real):
        f = float(v)
        if f == int(f) if np.isfinite(f) else False:
            # 3.0 and 3 are kept apart on purpose only by the 'f' tag
            pass
        h.update(b'f' + struct.pack('<d', f))
    elif isinstance(v, numbers.Complex):
        h.update(b'c' + struct.pack('<dd', v.real, v.imag))
    else:
        raise TypeError(type(v))


def _walk(h, obj, seen, exclude, depth=0, deep=frozenset()):
    if depth > 60:
        raise RecursionError('digest walk too deep')
    if obj is None:
        h.update(b'N')
        return
    if isinstance(obj, (bool, np.bool_, numbers.Number)) and not isinstance(obj, np.ndarray):
        _feed_scalar(h, obj)
        return
    if isinstance(obj, np.generic):  # np.str_, np.bytes_, np.void
        h.update(b'g' + obj.dtype.str.encode() + obj.tobytes())
        return
    if isinstance(obj, str):
        h.update(b's' + obj.encode())
        return
    if isinstance(obj, bytes):
        h.update(b'b' + obj)
        return
    if isinstance(obj, np.ndarray):
        if obj.ndim == 0 and obj.dtype.kind in 'biuf':
            _feed_scalar(h, obj[()])
            return
        if obj.dtype.kind == 'O':
            h.update(b'AO' + str(obj.shape).encode())
            for x in obj.ravel():
                _walk(h, x, seen, exclude, depth + 1, deep)
            return
        a = np.ascontiguousarray(obj)
        kind = obj.dtype.kind
        if kind in 'biu':
            # integer-like arrays are hashed by value (bool/int64 of a read-back are the same)
            a = np.ascontiguousarray(obj.astype(np.int64))
            kind = 'i'
        elif kind == 'f':
            a = np.ascontiguousarray(obj.astype(np.float64))
        else:
            kind = obj.dtype.str
        h.update(b'A' + str(kind).encode() + str(obj.shape).encode() + a.tobytes())
        return
    if isinstance(obj, np.dtype):
        h.update(b'D' + str(obj).encode())
        return
    if isinstance(obj, np.random.Generator):
        st = obj.bit_generator.state
        h.update(b'G' + json.dumps(_jsonable(st), sort_keys=True).encode())
        return
    if isinstance(obj, np.random.RandomState):
        st = obj.get_state(legacy=False)
        h.update(b'R' + json.dumps(_jsonable(st), sort_keys=True).encode())
        return
    oid = id(obj)
    if isinstance(obj, (list, tuple)):
        h.update(b'L' + str(len(obj)).encode())
        for x in obj:
            _walk(h, x, seen, exclude, depth + 1, deep)
        return
    if isinstance(obj, dict):
        h.update(b'M' + str(len(obj)).encode())
        for k in sorted(obj, key=repr):
            if k in exclude and depth == 0:
                continue
            h.update(b'k' + repr(k).encode())
            _walk(h, obj[k], seen, exclude, depth + 1, deep)
        return
    if isinstance(obj, (set, frozenset)):
        h.update(b'S' + str(len(obj)).encode())
        for x in sorted(obj, key=repr):
            _walk(h, x, seen, exclude, depth + 1, deep)
        return
    if isinstance(obj, functools.partial) or callable(obj) and not hasattr(obj, '__dict__'):
        h.update(b'F' + getattr(obj, '__name__', type(obj).__name__).encode())
        return
    if isinstance(obj, type):
        h.update(b'T' + obj.__name__.encode())
        return
    if hasattr(obj, '__dict__'):
        if oid in seen:
            h.update(b'@' + str(seen[oid]).encode())
            return
        seen[oid] = len(seen)
        h.update(b'O' + type(obj).__name__.encode())
        d = obj.__dict__
        for k in sorted(d):
            if (depth == 0 and k in exclude) or k in deep:
                continue
            h.update(b'k' + k.encode())
            _walk(h, d[k], seen, exclude, depth + 1, deep)
        return
    if callable(obj):
        h.update(b'F' + getattr(obj, '__name__', type(obj).__name__).encode())
        return
    h.update(b'?' + repr(obj).encode())


def _jsonable(x):
    if isinstance(x, dict):
        return {str(k): _jsonable(v) for k, v in x.items()}
    if isinstance(x, (list, tuple)):
        return [_jsonable(v) for v in x]
    if isinstance(x, np.ndarray):
        return x.tolist()
    if isinstance(x, (np.integer,)):
        return int(x)
    if isinstance(x, (np.floating,)):
        return float(x)
    if isinstance(x, (np.bool_,)):
        return bool(x)
    if isinstance(x, bytes):
        return x.hex()
    return x


def digest(obj, exclude=(), deep=()):
    """sha256 of a generic structural walk (arrays by kind+shape+bytes, scalars by value,
    generators by state, objects recursively through __dict__, cycles by first-visit index).
    exclude: attribute names skipped at the top level; deep: attribute names skipped at every level."""
    h = _h()
    _walk(h, obj, {}, set(exclude), 0, frozenset(deep))
    return h.hexdigest()


SAMPLER_EXCLUDE = ('prior', 'likelihood', 'pool_l', 'pool_s', 'filepath')


def sampler_digest(sampler):
    return digest(sampler, exclude=SAMPLER_EXCLUDE)


def h5_digest_bytes(image):
    """Logical digest of an HDF5 image (bytes): every group, dataset and attribute, by name."""
    import h5py
    if image is None:
        return 'nofile'
    with h5py.File(io.BytesIO(image), 'r') as f:
        return h5_digest_group(f)


def h5_digest_path(path):
    import h5py
    if path is None or not os.path.exists(path):
        return 'nofile'
    with h5py.File(path, 'r') as f:
        return h5_digest_group(f)


def h5_digest_group(f):
    import h5py
    h = _h()

    def attrs(o):
        for k in sorted(o.attrs.keys()):
            h.update(b'a' + k.encode())
            _walk(h, o.attrs[k], {}, set(), 1)

    def rec(g, name):
        h.update(b'g' + name.encode())
        attrs(g)
        for k in sorted(g.keys()):
            o = g[k]
            if isinstance(o, h5py.Group):
                rec(o, name + '/' + k)
            else:
                h.update(b'd' + (name + '/' + k).encode() + str(o.shape).encode() +
                         str(o.dtype).encode())
                attrs(o)
                h.update(np.ascontiguousarray(o[...]).tobytes())
    rec(f, '')
    return h.hexdigest()


def norm(x):
    """Normalise an observation for byte-for-byte comparison (scalars by value)."""
    if x is None:
        return None
    if isinstance(x, (bool, np.bool_)):
        return bool(x)
    if isinstance(x, numbers.Integral):
        return int(x)
    if isinstance(x, numbers.Real):
        return float(x)
    if isinstance(x, np.ndarray):
        return x
    if isinstance(x, (list, tuple)):
        return [norm(v) for v in x]
    if isinstance(x, dict):
        return {k: norm(v) for k, v in x.items()}
    return x


# --------------------------------------------------------------------------------------------
# scratch
# --------------------------------------------------------------------------------------------

def scratch_root():
    for base in ('/dev/shm', None):
        try:
            d = tempfile.mkdtemp(prefix='nvmc-', dir=base)
            return d
        except OSError:
            continue
    raise RuntimeError('no scratch directory')


@contextlib.contextmanager
def scratch():
    d = scratch_root()
    try:
        yield d
    finally:
        shutil.rmtree(d, ignore_errors=True)


# --------------------------------------------------------------------------------------------
# violations / findings / evidence
# --------------------------------------------------------------------------------------------

class Violation(dict):
    """property, signature, explanation, replay (JSON-able description that reproduces it)."""

    def __init__(self, prop, signature, explanation, replay=None):
        super().__init__(property=prop, signature=signature, explanation=explanation,
                         replay=replay or {})


class Timeout(Exception):
    """raised by time_limit"""


@contextlib.contextmanager
def time_limit(seconds):
    """SIGALRM-based limit for one call of library code (main thread of a worker process only)"""
    import signal

    def handler(signum, frame):
        raise Timeout('exceeded {} s'.format(seconds))
    old = signal.signal(signal.SIGALRM, handler)
    signal.alarm(int(seconds))
    try:
        yield
    finally:
        signal.alarm(0)
        signal.signal(signal.SIGALRM, old)


class Inconclusive(Exception):
    """The harness cannot decide (exit 2) - never reported as a violation."""


def load_known():
    p = os.path.join(VERIF, 'known_findings.json')
    if not os.path.exists(p):
        return []
    with open(p) as f:
        return json.load(f).get('findings', [])


def match_known(v, known):
    for k in known:
        if k.get('status') != 'known':
            continue
        if k['property'] == v['property'] and v['signature'].startswith(k['signature']):
            return k
    return None


def report(prop, violations, tier):
    """Print VIOLATION / KNOWN-FINDING lines, store replays, return (exit_code, n_new)."""
    known = load_known()
    rep_dir = os.path.join(OUT, 'replays', prop)
    new = {}
    old = {}
    for v in violations:
        if v['property'] != prop:
            continue
        k = match_known(v, known)
        if k is not None:
            old.setdefault(k['signature'], (k, v))
        else:
            new.setdefault(v['signature'], v)
    for sig, (k, v) in sorted(old.items()):
        print('KNOWN-FINDING: property={} {} [{}]'.format(prop, k['what'], sig))
    for sig, v in sorted(new.items()):
        os.makedirs(rep_dir, exist_ok=True)
        name = hashlib.sha1(sig.encode()).hexdigest()[:12] + '.json'
        path = os.path.join(rep_dir, name)
        with open(path, 'w') as f:
            json.dump(dict(property=prop, signature=sig, explanation=v['explanation'],
                           replay=_jsonable(v['replay']), tier=tier, seed=SEED), f, indent=1,
                      default=str)
        print('VIOLATION property={} replay={}'.format(prop, path))
        print('  signature: {}'.format(sig))
        print('  ' + str(v['explanation'])[:1500].replace('\n', '\n  '))
    sys.stdout.flush()
    return (1 if new else 0), len(new), len(old)


def write_evidence(prop, tier, level, coverage, assumptions, wall_s, violations):
    os.makedirs(os.path.join(OUT, 'evidence'), exist_ok=True)
    ev = dict(property_id=prop, tier=tier, seed=SEED, level=level, coverage=_jsonable(coverage),
              assumptions=list(assumptions), wall_s=round(float(wall_s), 2),
              violations=int(violations))
    path = os.path.join(OUT, 'evidence', prop + '.json')
    tmp = path + '.tmp'
    with open(tmp, 'w') as f:
        json.dump(ev, f, indent=1, default=str)
    os.replace(tmp, path)
    return path


# --------------------------------------------------------------------------------------------
# parallel runner
# --------------------------------------------------------------------------------------------

JOB_LIMIT_S = int(os.environ.get('NVMC_JOB_LIMIT', '1500'))


def _call(job):
    fn, args = job
    import warnings
    warnings.simplefilter('ignore')
    try:
        if getattr(fn, 'time_limited', False):
            with time_limit(JOB_LIMIT_S):
                return ('ok', fn(*args))
        return ('ok', fn(*args))
    except Timeout:
        return ('timeout', args)
    except Inconclusive as e:
        return ('inconclusive', str(e))
    except BaseException:
        return ('error', traceback.format_exc())


def n_workers():
    try:
        n = len(os.sched_getaffinity(0))
    except AttributeError:
        n = os.cpu_count() or 1
    return max(1, min(16, n))


def pmap(fn, arglist, workers=None):
    """Run fn(*args) for every args in arglist on a process pool (fork-server context so that
    workers start from a clean interpreter); results in input order. A worker error or an
    Inconclusive aborts the whole check with exit 2."""
    import multiprocessing as mp
    jobs = [(fn, a) for a in arglist]
    if workers is None:
        workers = n_workers()
    workers = min(workers, len(jobs)) or 1
    if workers == 1 or os.environ.get('NVMC_SERIAL'):
        res = [_call(j) for j in jobs]
    else:
        ctx = mp.get_context('forkserver')
        with ctx.Pool(workers, maxtasksperchild=None) as pool:
            res = pool.map(_call, jobs, chunksize=1)
    out = []
    for kind, val in res:
        if kind == 'ok':
            out.append(val)
        elif kind == 'timeout':
            out.append(dict(timeout=True, args=val))
        elif kind == 'inconclusive':
            raise Inconclusive(val)
        else:
            raise Inconclusive('worker failed:\n' + val)
    return out


class Timer:
    def __init__(self):
        self.t0 = time.time()

    def __call__(self):
        return time.time() - self.t0
