"""Engine-A checks (C01, C02, C03, C05, C10, C11, C12): configurations, driver, evidence."""
import json
import os
import subprocess
import sys

from . import core, scen, scenarios, smc, monitors as M, VERIF
from .core import Violation


# --------------------------------------------------------------------------------------------
# per-property exploration configurations (looked up by name inside worker processes)
# --------------------------------------------------------------------------------------------

def _alpha(*acts):
    def alphabet(st):
        return list(acts)
    return alphabet


def _toggle_ok(st, tier, every):
    """toggle positions: every batch boundary of the sampling phase and the end of exploration
    (thorough: everywhere); before that only every `every`-th boundary"""
    if tier == 'thorough':
        return True
    return st.explored and st.depth % 2 == 0 or st.depth % every == 0


def _since_toggle(st):
    """number of run-like actions since the last toggle on the path, counted from the end of
    exploration for a toggle made before it (None: no toggle yet): a toggle made while exploring only
    takes effect when exploration ends, so such a path is followed to that point and `horizon` beyond"""
    n = None
    for d, a in enumerate(st.path):
        if a[0] == 'toggle':
            n = 0
        elif n is not None and a[0] != 'resume':
            if st.dexp is None or d + 1 > st.dexp:
                n += 1
    return n


def _horizon(tier):
    """after a toggle a path is followed for this many more batches only: the C02/C03/C12 oracles
    are evaluated per transition, and toggled paths legitimately end with different results, so
    nothing is gained by running each of them to termination"""
    return 4 if tier == 'quick' else 8


def _terminal_raise(st):
    """at a terminal state whose targets are still the scenario's: raise the n_eff target above what
    has been reached (x1.25)"""
    if not any(a[0] == 'raise' for a in st.path):
        n_eff, n_shell = st.target
        return [('raise', int(max(n_eff, st.n_eff) * 1.25) + 5, n_shell)]
    return []


def _loops_C10(st):
    return [('cap', 'zero'), ('cap', 'below'), ('cap', 'at'), ('tick', 0), ('tick', 1)]


def _loops_C11(st):
    return [('observe',)]


# variants: every (scenario, variant) pair is one exploration job with its own sub-alphabet - all of
# them start from the initial state, so the union of the explored histories is what is reported.
VARIANTS = dict(
    C01=dict(quick=['resume', 'nshell'], thorough=['resume2', 'nshell']),
    C02=dict(quick=['resume/0/2', 'resume/1/2', 'toggle/0/2', 'toggle/1/2', 'nshell'],
             thorough=['resume', 'toggle2/0/3', 'toggle2/1/3', 'toggle2/2/3', 'nshell']),
    C03=dict(quick=['resume', 'toggle/0/2', 'toggle/1/2'],
             thorough=['resume2', 'toggle/0/2', 'toggle/1/2']),
    C05=dict(quick=['resume/0/2', 'resume/1/2', 'slices'],
             thorough=['resume2/0/3', 'resume2/1/3', 'resume2/2/3', 'slices', 'mixed/0/2',
                       'mixed/1/2']),
    C10=dict(quick=['slices', 'resume', 'raise', 'raise_shell'],
             thorough=['slices', 'resume', 'raise', 'raise_shell', 'finish', 'mixed/0/2', 'mixed/1/2']),
    C11=dict(quick=['observe'], thorough=['observe']),
    C12=dict(quick=['toggle-resume/0/2', 'toggle-resume/1/2', 'toggle2/0/2', 'toggle2/1/2', 'nshell'],
             thorough=['toggle-resume/0/2', 'toggle-resume/1/2', 'toggle3/0/3', 'toggle3/1/3',
                       'toggle3/2/3', 'raise', 'nshell']),
)


def config(prop, tier, scn, variant):
    mons = {
        'C01': [M.mon_exception('C01'), M.mon_partition],
        'C02': [M.mon_exception('C02'), M.mon_estimators],
        'C03': [M.mon_exception('C03'), M.mon_rows],
        'C05': [M.mon_exception('C05'), M.mon_once('C05')],
        'C10': [M.mon_exception('C10'), M.mon_calls, M.mon_noop('C10')],
        'C11': [M.mon_exception('C11'), M.mon_pure],
        'C12': [M.mon_exception('C12'), M.mon_freeze, M.mon_toggle, M.mon_resume_obs('C12')],
    }[prop]
    cfg = dict(monitors=mons, R=0, T=0, S=0)
    # 'name/k/n' = the variant `name` with its deviating actions (resume, toggle, finish, sched)
    # allowed only at depths d with d % n == k: splits one exploration into n jobs whose union covers
    # the same deviations at every depth
    shard = None
    if '/' in variant:
        variant, k_, n_ = variant.split('/')
        shard = (int(k_), int(n_))
    if variant == 'resume':
        cfg.update(alphabet=_alpha(('step',), ('resume',)), R=1)
        if prop == 'C05':
            def alphabet(st):
                acts = [('step',), ('resume',)]
                if st.depth == 0 or st.path[-1][0] == 'resume':
                    acts.append(('finish',))
                return acts
            cfg['alphabet'] = alphabet
        if prop == 'C10':
            cfg['loops'] = lambda st: _loops_C10(st) if (st.path and st.path[-1][0] == 'resume') \
                else []
    elif variant == 'resume1':
        # every batch boundary of a (long) run as a resume point, followed for ONE more batch only:
        # a stale checkpoint shows at once as a re-evaluated point (M-once) or as a state that differs
        # from the in-memory continuation; cost is linear in the length of the run
        def alphabet(st):
            if any(a[0] == 'resume' for a in st.path):
                return [('step',)] if st.path[-1][0] == 'resume' else []
            return [('step',), ('resume',)]
        cfg.update(alphabet=alphabet, R=1, max_states=20000)
    elif variant == 'resume2':
        cfg.update(alphabet=_alpha(('step',), ('resume',)), R=2)
    elif variant == 'resume3':
        cfg.update(alphabet=_alpha(('step',), ('resume',)), R=3)
    elif variant in ('toggle', 'toggle2'):
        def alphabet(st):
            since = _since_toggle(st)
            if since is not None and since >= _horizon(tier):
                return []
            acts = [('step',), ('resume',)]
            if _toggle_ok(st, tier, 5):
                acts.append(('toggle',))
            return acts
        cfg.update(alphabet=alphabet, R=1, T=1 if variant == 'toggle' else 2)
    elif variant == 'slices':
        def alphabet(st):
            acts = [('step',), ('run2',), ('tick', 2), ('tick', 3)]
            if prop == 'C05' and (tier == 'thorough' or st.depth % 2 == 0):
                acts.append(('finish',))
            return acts
        cfg.update(alphabet=alphabet)
        if prop == 'C10':
            cfg['loops'] = _loops_C10
    elif variant == 'mixed':
        def alphabet(st):
            acts = [('step',), ('resume',), ('run2',), ('tick', 2)]
            if st.path and st.path[-1][0] == 'resume':
                acts.append(('finish',))
            return acts
        cfg.update(alphabet=alphabet, R=2)
    elif variant == 'finish':
        cfg.update(alphabet=_alpha(('step',), ('finish',)))
    elif variant == 'raise':
        cfg.update(alphabet=_alpha(('step',)), terminal_alphabet=_terminal_raise)
        if prop == 'C12':
            def alphabet(st):
                acts = [('step',)]
                if any(a[0] == 'raise' for a in st.path):
                    acts += [('resume',), ('toggle',)]
                return acts
            cfg.update(alphabet=alphabet, R=1, T=1)
        if prop == 'C10':
            def alphabet(st):
                acts = [('step',)]
                if any(a[0] == 'raise' for a in st.path):
                    acts += [('resume',), ('run2',)]
                return acts
            cfg.update(alphabet=alphabet, R=1)
    elif variant == 'nshell':
        def terminal_alphabet(st):
            if not any(a[0] == 'runto' for a in st.path):
                n_eff, n_shell = st.target
                return [('runto', n_eff, 200), ('runto', int(max(n_eff, st.n_eff) * 1.5), 40)]
            return [('resume',)] if st.path[-1][0] == 'runto' else []
        cfg.update(alphabet=_alpha(('step',)), terminal_alphabet=terminal_alphabet, R=1)
    elif variant == 'raise_shell':
        # after "done": a later run() call asks for more samples per shell than one batch holds
        # (n_shell = 3 n_batch), under a budget of one batch per call; followed for 8 batches
        def terminal_alphabet(st):
            if not any(a[0] == 'raise' for a in st.path):
                return [('raise', st.target[0], 3 * scn['n_batch'])]
            return []

        def alphabet(st):
            k = next((i for i, a in enumerate(st.path) if a[0] == 'raise'), None)
            if k is not None and len(st.path) - k > 8:
                return []
            return [('step',)] + ([('resume',), ('run2',), ('tick', 2)] if k is not None else [])
        cfg.update(alphabet=alphabet, terminal_alphabet=terminal_alphabet, R=1)
    elif variant == 'observe':
        def alphabet(st):
            acts = [('step',)] + ([('finish',)] if st.depth == 0 else [])
            if scn['pool_l']:
                acts += [('sched', 'rev'), ('sched', 'rot1')]
                if tier == 'thorough':
                    acts += [('sched', 'rot2'), ('sched', 'perm3'), ('sched', 'perm7')]
            return acts
        cfg.update(alphabet=alphabet, loops=_loops_C11, S=1 if tier == 'quick' else 3)
    elif variant == 'toggle-resume':
        def alphabet(st):
            since = _since_toggle(st)
            if since is not None and since >= _horizon(tier):
                return []
            acts = [('step',), ('resume',)]
            if _toggle_ok(st, tier, 4):
                acts.append(('toggle',))
            return acts
        cfg.update(alphabet=alphabet, R=1, T=1)
    elif variant in ('toggle2', 'toggle3'):
        def alphabet(st):
            since = _since_toggle(st)
            if since is not None and since >= _horizon(tier):
                return []
            acts = [('step',)]
            if st.explored or tier == 'thorough' and st.depth % 3 == 0:
                acts.append(('toggle',))
            return acts
        cfg.update(alphabet=alphabet, T=2 if variant == 'toggle2' else 3)
    else:
        raise KeyError(variant)
    if shard is not None:
        inner = cfg['alphabet']

        def sharded(st, inner=inner, shard=shard):
            acts = inner(st)
            if st.depth % shard[1] != shard[0] and not any(
                    a[0] in ('resume', 'toggle') for a in st.path):
                acts = [a for a in acts if a[0] not in ('resume', 'toggle', 'finish', 'sched')]
            return acts
        cfg['alphabet'] = sharded
    return cfg


SCENARIOS = dict(
    C01=dict(quick=['gauss', 'two_split', 'wrap_net', 'half', 'g3_pool_s', 'plateau', 'nlb',
                    'funnel_net', 'ring_net', 'ring_split_net:resume', 'const:resume',
                    'wrap_pool_s:resume', 'g5:resume', 'net2_tanh:resume', 'cross_split:resume',
                    'empty:resume', 'gauss_stale:resume', 'empty2:resume', 'faint_trim:nshell'],
             thorough=['gauss', 'gauss_net', 'two', 'ring_net', 'half', 'plateau', 'wrap',
                       'wrap_net', 'g3_pool_s', 'two_pool_s', 'b7_update', 'blob_two_obj', 'b1',
                       'funnel_net', 'funnel', 'nlb', 'nlb_ring', 'empty', 'two_split', 'ring_split_net',
                       'const', 'nuisance3_net', 'wrap_pool_s', 'gauss:resume3', 'half:resume3',
                       'plateau:resume3', 'const:resume3', 'g5', 'net2_tanh', 'empty2:resume',
                       'faint_trim:nshell']),
    C02=dict(quick=['gauss_d', 'half', 'gauss_t', 'wrap_net', 'wrap_net:slices',
                    'two_split:resume/0/2+resume/1/2+slices',
                    'const:resume',
                    'funnel_net:resume/0/2+resume/1/2+nshell',
                    'empty:resume/0/2+resume/1/2+nshell', 'enlarge25:resume', 'empty2_d:resume'],
             thorough=['gauss', 'gauss_t', 'gauss_d', 'gauss_net:resume+nshell', 'two', 'ring_net', 'half',
                       'plateau', 'wrap_net', 'g3_pool_s', 'b7_update', 'b1', 'blob_f32_inplace',
                       'nlb', 'funnel_net', 'empty', 'empty_d:resume+toggle/0/2+toggle/1/2+nshell',
                       'two_split', 'ring_split_net:resume+nshell', 'const', 'g5', 'net2_tanh:resume+nshell',
                       'enlarge25:resume+nshell', 'empty2_d:resume+nshell']),
    C03=dict(quick=['blob_float', 'blob_int_vec', 'blob_two_obj', 'blob_array_pool',
                    'blob_struct_dictfn', 'blob_f32_inplace', 'blob_float_b1', 'blob_two_b2_vec',
                    'vec_pool:resume'],
             thorough=['blob_float', 'blob_int_vec', 'blob_two_obj', 'blob_array_pool',
                       'blob_struct_dictfn', 'blob_f32_inplace', 'blob_float_b1', 'blob_array_b1',
                       'blob_two_b2_vec', 'blob_struct_b1', 'vec_inplace', 'obj_array_vec',
                       'dictfn_vec_net', 'pool_l3', 'gauss', 'wrap_net', 'vec_pool', 'cross_split:resume',
                       'obj_vec']),
    C05=dict(quick=['gauss_s', 'gauss_d', 'wrap_net', 'blob_two_obj',
                    'net2_tanh:resume/0/2+resume/1/2', 'two_split', 'nlb',
                    'b7_update:resume/0/2+resume/1/2+slices/0/2+slices/1/2',
                    'const:resume/0/2+resume/1/2',
                    'long_b5:resume1/0/3+resume1/1/3+resume1/2/3', 'half:resume2', 'plateau:resume2',
                    'gauss_stale:resume', 'enlarge25:resume'],
             thorough=['gauss', 'gauss_s', 'gauss_d', 'gauss_net', 'two', 'ring_net', 'half', 'wrap',
                       'wrap_net', 'g3_pool_s', 'blob_float', 'blob_int_vec', 'blob_two_obj',
                       'blob_array_pool', 'blob_struct_dictfn', 'blob_f32_inplace',
                       'dictfn_vec_net', 'b7_update', 'nlb', 'nlb_ring', 'b1', 'empty_d', 'two_split',
                       'ring_split_net', 'const', 'nuisance3_net', 'funnel_net', 'g5', 'net2_tanh',
                       'long_b5:resume1', 'enlarge25:resume']),
    C10=dict(quick=['gauss_s', 'b7_update', 'half', 'gauss_d', 'nlb', 'const:slices+resume',
                    'cross_split:resume', 'obj_vec:resume+slices', 'dictfn_vec_net:resume', 'corr:resume'],
             thorough=['gauss', 'gauss_s', 'gauss_d', 'b7_update', 'half', 'b1', 'two', 'wrap_net',
                       'blob_int_vec', 'pool_l3', 'cross_split', 'vec_pool', 'wrap_pool_s', 'g5', 'obj_vec',
                       'dictfn_vec_net', 'blob_struct_dictfn', 'corr']),
    C11=dict(quick=['gauss_s', 'blob_array_pool', 'wrap_net', 'pool_l3', 'nuisance', 'vec_pool'],
             thorough=['gauss', 'gauss_s', 'gauss_net', 'blob_array_pool', 'pool_l3', 'wrap_net',
                       'two', 'nofile', 'blob_two_obj', 'nuisance', 'nuisance3_net', 'half', 'g3_pool_s',
                       'wrap_pool_s']),
    C12=dict(quick=['gauss_t', 'gauss_d', 'wrap_net', 'blob_two_obj', 'empty_d:nshell',
                    'enlarge25:nshell', 'empty2_d:nshell', 'ring_pend_d:nshell'],
             thorough=['gauss', 'gauss_t', 'gauss_d', 'b7_update',
                       'b1:toggle-resume/0/2+toggle-resume/1/2+nshell', 'two', 'half', 'wrap_net',
                       'blob_float', 'blob_two_obj',
                       'gauss_net:toggle-resume/0/2+toggle-resume/1/2+nshell', 'empty', 'empty_d',
                       'enlarge25:toggle-resume/0/2+toggle-resume/1/2+nshell',
                       'empty2_d:nshell', 'empty2:nshell', 'ring_pend_d']),
)

LEVEL = 'model_checking'


def _job(prop, tier, scn_dict, variant):
    scn = _mk(scn_dict)
    cfg = config(prop, tier, scn, variant)
    r = smc.explore(scn, cfg['alphabet'], cfg['monitors'], R=cfg.get('R', 1), T=cfg.get('T', 0),
                    S=cfg.get('S', 0), loops=cfg.get('loops'),
                    terminal_alphabet=cfg.get('terminal_alphabet'),
                    max_states=cfg.get('max_states', 6000), time_cap=cfg.get('time_cap'))
    r['variant'] = variant
    r['budgets'] = dict(R=cfg.get('R', 0), T=cfg.get('T', 0), S=cfg.get('S', 0))
    return r


def _det_job(scn_dict, depth, variant):
    """default path in a FRESH interpreter with its own hash seed / legacy seed / terminal width"""
    env = dict(os.environ)
    env['PYTHONHASHSEED'] = str(11 + 97 * variant)
    env['NVMC_LEGACY_SEED'] = str(5 + variant)
    env['COLUMNS'] = str(80 + 37 * variant)
    env['PYTHONPATH'] = VERIF + os.pathsep + env.get('PYTHONPATH', '')
    spec = json.dumps(dict(scenario=scn_dict, depth=depth))
    try:
        p = subprocess.run([sys.executable, '-m', 'nvmc.detrun', spec], env=env, cwd=VERIF,
                           capture_output=True, text=True, timeout=JOB_WATCHDOG_S)
    except subprocess.TimeoutExpired:
        raise core.Inconclusive('fresh-process replay of {} did not finish in {} s'.format(
            scn_dict.get('name'), JOB_WATCHDOG_S))
    for line in p.stdout.splitlines():
        if line.startswith('KEYS '):
            return json.loads(line[5:])
    raise core.Inconclusive('detrun failed: ' + p.stderr[-2000:])


def _mk(scn_dict, **over):
    d = dict(scn_dict)
    name = d.pop('name')
    seed = d.pop('seed')
    d.update(over)
    scn = scen.Scenario(name, **d)
    scn['seed'] = seed
    return scn


def _path_obs(scn, path, every=True):
    """replays a path on a fresh sampler; returns per-depth observation digests (None where no
    sample is stored yet) and the final summary"""
    eng = smc.Engine(scn, [])
    try:
        st = eng.initial()
        obs = []
        summ = None
        for act in path:
            new, ctx = eng.apply(st, tuple(act))
            if new is None:
                obs.append('EXC:{}'.format(ctx['exc']))
                break
            s = ctx['post']
            if act[0] in ('step', 'finish', 'run2', 'resume', 'toggle', 'runarg') and len(
                    s.bounds) and int(sum(len(x) for x in s.log_l)) > 0:
                try:
                    d, summ = smc.observation(s)
                except Exception as e:
                    d = 'EXC:{}:{}'.format(type(e).__name__, str(e)[:80])
                obs.append(d)
            else:
                obs.append(None)
            st = new
            if new.terminal:
                break
        return obs, summ, st.skey, st.fkey
    finally:
        eng.close()


def _pair_job(scn_dict, over_a, over_b, label, depth):
    """C11(b): lock-step product run of two configurations that must be indistinguishable"""
    a = _mk(scn_dict, **over_a)
    b = _mk(scn_dict, **over_b)
    path = [('step',)] * depth
    oa, sa, _, _ = _path_obs(a, path)
    ob, sb, _, _ = _path_obs(b, path)
    out = []
    if oa != ob:
        k = next((i for i in range(min(len(oa), len(ob))) if oa[i] != ob[i]), min(len(oa), len(ob)))
        out.append(Violation('C11', 'pair:' + label, 'configurations {} and {} of scenario {} give '
                             'different results from depth {} on ({} vs {})'.format(
                                 over_a, over_b, scn_dict['name'], k, sa, sb),
                             dict(kind='pair', scenario=scn_dict, over_a=over_a, over_b=over_b,
                                  label=label, depth=depth)))
    return dict(violations=out, depth=len(oa), label=label, scenario=scn_dict['name'],
                final=sa)


def _mp_job(scn_dict, size, depth):
    """C11(d): conformance of FakePool to real multiprocessing pools (free running): the final
    observation of a run with Sampler(pool=size) equals the serial one"""
    import numpy as np
    import functools
    from nautilus import Sampler
    scn = _mk(scn_dict, pool_l=0, pool_s=0, file=False)
    serial = scn.build()
    scen.LOG['on'] = False
    try:
        A = scn.run_args()
        serial.run(**A)
        d0, s0 = smc.observation(serial)
        kw = scn.sampler_kwargs()
        kw['pool'] = (size, None)       # likelihood pool only (an int would also pool the sampler)
        kw['n_dim'] = scn['n_dim']
        par = Sampler(scen.prior_identity, functools.partial(scen.likelihood_array, scn['like'],
                                                             scn['blob']), **kw)
        try:
            par.run(**A)
            d1, s1 = smc.observation(par)
        finally:
            for pl in (par.pool_l, par.pool_s):
                if pl is not None:
                    pl.pool.terminate()
    finally:
        scen.LOG['on'] = True
    out = []
    if d0 != d1:
        out.append(Violation('C11', 'pool:multiprocessing-size-{}'.format(size),
                             'a run with a real multiprocessing pool of size {} differs from the '
                             'serial run: {} vs {}'.format(size, s1, s0),
                             dict(kind='mp', scenario=scn_dict, size=size)))
    return dict(violations=out, label='mp{}'.format(size), scenario=scn_dict['name'], final=s1,
                depth=0)


def _steps_obs(scn, path):
    """observation digest after every `step` of a path, keyed by the number of steps taken; also the
    observation right after each toggle/resume (keyed ('toggle'|'resume', steps taken))"""
    eng = smc.Engine(scn, [])
    out = {}
    try:
        st = eng.initial()
        n = 0
        k_exp = None
        for act in path:
            new, ctx = eng.apply(st, tuple(act))
            if new is None:
                out[('EXC', n)] = str(ctx['exc'])
                break
            s = ctx['post']
            if act[0] == 'step':
                n += 1
            if s.explored and k_exp is None:
                k_exp = n
            if len(s.bounds) and int(sum(len(x) for x in s.log_l)) > 0:
                try:
                    d = smc.observation(s)[0]
                except Exception as e:
                    d = 'EXC:{}:{}'.format(type(e).__name__, str(e)[:80])
                out[n if act[0] == 'step' else (act[0], n)] = d
            st = new
        return out, k_exp, st.skey, st.fkey
    finally:
        eng.close()


def _mp_rows_job(size, vectorized):
    """C03 through real worker processes: Sampler(pool=(size, None)) with likelihood_args/kwargs and
    prior_args/kwargs; every posterior row must carry what the CONFIGURED likelihood returns for it"""
    import numpy as np
    from nautilus import Sampler
    out = []
    scen.LOG['on'] = False
    try:
        kw = dict(n_dim=2, n_live=40, n_batch=16, n_networks=0, seed=3 + 1000 * core.SEED,
                  n_points_min=6, vectorized=vectorized,
                  likelihood_kwargs=dict(scale=0.5, shift=2.0), prior_args=[0.0],
                  prior_kwargs=dict(power=1))
        if size:
            kw['pool'] = (size, None)
        s = Sampler(scen.prior_shift, scen.likelihood_kw, **kw)
        try:
            s.run(f_live=0.1, n_eff=100)
            pts, log_w, log_l, blobs = s.posterior(return_blobs=True)
        finally:
            if s.pool_l is not None:
                s.pool_l.pool.terminate()
        exp = scen.likelihood_kw(pts, scale=0.5, shift=2.0)
        bad_l = int(np.sum(exp[0] != log_l))
        bad_b = int(np.sum(np.asarray(exp[1]) != np.asarray(blobs)))
        if bad_l or bad_b:
            out.append(Violation('C03', 'rows:configured-likelihood-mismatch:pool-{}'.format(size),
                                 'pool of {} worker processes, likelihood_kwargs=dict(scale=0.5, '
                                 'shift=2.0): {} of {} rows carry a log-likelihood and {} a blob that '
                                 'the configured likelihood does not return for the row\'s point'
                                 .format(size, bad_l, len(log_l), bad_b),
                                 dict(kind='mprows', size=size, vectorized=vectorized)))
        n = len(log_l)
    except Exception as e:
        out.append(Violation('C03', 'exception:pool-{}:{}'.format(size, type(e).__name__),
                             'run with a pool of {} worker processes and likelihood_kwargs raised {}: '
                             '{}'.format(size, type(e).__name__, str(e)[:300]),
                             dict(kind='mprows', size=size, vectorized=vectorized)))
        n = 0
    finally:
        scen.LOG['on'] = True
    return dict(violations=out, label='mp-rows-{}'.format(size), scenario='likelihood_kw', depth=n,
                final=None)


def _three_ways_job(scn_dict):
    """C12: the three ways of getting discard_exploration on (argument of run(); setter right after
    exploration ended; setter after a resume) give the same statistics at every later batch."""
    base = _mk(scn_dict, discard=False)
    arg = _mk(scn_dict, discard=True)
    tail = 5
    o_arg_full, k_exp, _, _ = _steps_obs(arg, [('step',)] * 300)
    out = []
    if k_exp is None:
        return dict(violations=out, label='3ways', scenario=scn_dict['name'], depth=0, final=None)
    n_arg = max(k for k in o_arg_full if isinstance(k, int))
    tail = min(tail, n_arg - k_exp)
    paths = {
        'setter-after-run': [('step',)] * k_exp + [('toggle',)] + [('step',)] * tail,
        'setter-after-resume': [('step',)] * k_exp + [('resume',), ('toggle',)] + [('step',)] * tail,
        'setter-step-resume': [('step',)] * k_exp + [('toggle',), ('step',), ('resume',)] + [
            ('step',)] * max(tail - 1, 0),
    }
    n_tr = 0
    ref_state = None
    for label, path in paths.items():
        o, k2, skey, fkey = _steps_obs(base, path)
        n_tr += len(path)
        exc = [v for k, v in o.items() if isinstance(v, str) and v.startswith('EXC')] + [
            v for k, v in o.items() if isinstance(k, tuple) and k[0] == 'EXC']
        diffs = []
        # the view right after the toggle equals the discarding run at the same batch
        tk = ('toggle', k_exp)
        if tk in o and o[tk] != o_arg_full.get(k_exp):
            diffs.append(0)
        for n in range(k_exp + 1, k_exp + tail + 1):
            if n in o and n in o_arg_full and o[n] != o_arg_full[n]:
                diffs.append(n - k_exp)
        rk = ('resume', k_exp + 1)
        if rk in o and o[rk] != o_arg_full.get(k_exp + 1):
            diffs.append(1)
        if exc or diffs:
            out.append(Violation(
                'C12', 'threeways:' + label + (':raises' if exc else ''),
                'scenario {}: discard_exploration requested through run() and through "{}" give '
                'different statistics {} batch(es) after exploration ended{}'.format(
                    scn_dict['name'], label, sorted(set(diffs)), ' (' + exc[0] + ')' if exc else ''),
                dict(kind='threeways', scenario=scn_dict, label=label, path=path)))
    return dict(violations=out, label='3ways', scenario=scn_dict['name'], depth=n_tr + n_arg,
                final=None)


def _checkpoints_job(prop, scn_dict):
    """C01/C02: every COMPLETED checkpoint of an uninterrupted run - including the mid-step ones (the
    full write right after a bound insertion, the update before the end-of-exploration write) that no
    batch-boundary stop can show - is resumed and checked with the state monitor"""
    import hashlib
    import shutil
    from nautilus import Sampler
    scn = _mk(scn_dict, file=True)
    root = core.scratch_root()
    images = []
    origs = {}

    def wrap(name):
        orig = getattr(Sampler, name)
        origs[name] = orig

        def wrapped(self, *a, **k):
            r = orig(self, *a, **k)
            with open(self.filepath, 'rb') as f:
                images.append((name, int(self.n_like), len(self.bounds), f.read()))
            return r
        setattr(Sampler, name, wrapped)
    out = []
    n = 0
    scen.LOG['on'] = False
    try:
        wrap('write')
        wrap('write_shell_update')
        path = os.path.join(root, 'ck.h5')
        try:
            s = scn.build(filepath=path, resume=False)
            s.run(**scn.run_args())
        except (smc.Hang, core.Timeout, core.Inconclusive):
            raise
        except Exception as e:
            # the library raised in a plain uninterrupted run that writes checkpoints: reported like
            # any other raising action; the checkpoints completed so far are still examined
            import traceback
            tb = traceback.extract_tb(e.__traceback__)
            site = next(('{}:{}'.format(os.path.basename(f.filename), f.name) for f in reversed(tb)
                         if os.sep + 'nautilus' + os.sep in f.filename), '?')
            out.append(Violation(
                prop, 'exception:checkpointed-run:{}:{}'.format(type(e).__name__, site),
                'scenario {}: an uninterrupted run() writing checkpoints raised {}: {}'.format(
                    scn.name, type(e).__name__, str(e)[:300]),
                dict(kind='checkpoints', scenario=dict(scn), op=-1)))
        finally:
            for k, v in origs.items():
                setattr(Sampler, k, v)
        seen = set()
        check = M.check_partition if prop == 'C01' else M.check_estimators
        for j, (kind, n_like, nb, img) in enumerate(images):
            h = hashlib.sha1(img).hexdigest()
            if h in seen:
                continue
            seen.add(h)
            with open(path, 'wb') as f:
                f.write(img)
            try:
                s2 = scn.build(filepath=path, resume=True)
                vs = check(s2, prop=prop, where='@checkpoint')
            except Exception as e:
                vs = [Violation(prop, 'exception:checkpoint-resume:' + type(e).__name__, str(e)[:300])]
            n += 1
            for v in vs:
                v['explanation'] = 'checkpoint operation {} ({}, n_like={}, {} bounds): {}'.format(
                    j, kind, n_like, nb, v['explanation'])
                v['replay'] = dict(kind='checkpoints', scenario=dict(scn), op=j)
                out.append(v)
    finally:
        scen.LOG['on'] = True
        shutil.rmtree(root, ignore_errors=True)
    return dict(violations=out, label='completed-checkpoints', scenario=scn.name, depth=n,
                final=None)


def terminal_agreement(prop, scns, results):
    """all terminal states of one scenario with the same targets and the same toggle history must
    show one observation - across all variants explored for that scenario"""
    out = []
    merged = {}
    for s, r in zip(scns, results):
        for cls, obs in r['terminals'].items():
            m = merged.setdefault((s.name, cls), (s, {}))[1]
            for d, v in obs.items():
                if d not in m or len(v['path']) < len(m[d]['path']):
                    m[d] = v
    for (name, cls), (s, obs) in merged.items():
        if len(obs) > 1:
            items = sorted(obs.items(), key=lambda kv: len(kv[1]['path']))
            (d0, a), (d1, b) = items[0], items[1]
            out.append(Violation(
                prop, 'terminal:results-differ',
                'scenario {}: two histories of the same computation end with different results: '
                '{} via {} actions vs {} via {} actions ({} classes in total)'.format(
                    name, a['summary'], len(a['path']), b['summary'], len(b['path']), len(obs)),
                dict(kind='terminal', scenario=dict(s), path=a['path'], path_b=b['path'])))
    return out


def extra_jobs(prop, tier, scns, results):
    jobs = []
    if prop == 'C11':
        names = ['gauss', 'blob_float', 'wrap_net'] if tier == 'quick' else [
            'gauss', 'blob_float', 'wrap_net', 'two', 'gauss_net', 'blob_two_obj', 'half', 'ring_net',
            'funnel_net', 'nlb_ring', 'two_split', 'ring_split_net']
        for s in scenarios.get(names):
            d = dict(s)
            depth = 12 if tier == 'quick' else 80
            jobs.append(('pair', d, dict(vectorized=False), dict(vectorized=True), 'scalar-vs-vectorized', depth))
            jobs.append(('pair', d, dict(verbose=False), dict(verbose=True), 'verbose', depth))
            jobs.append(('pair', d, dict(file=True), dict(file=False), 'file-vs-nofile', depth))
            nb = 12
            jobs.append(('pair', dict(d, n_batch=nb), dict(pool_l=0), dict(pool_l=2), 'pool-none-vs-2', depth))
            jobs.append(('pair', dict(d, n_batch=nb), dict(pool_l=2), dict(pool_l=3), 'pool-2-vs-3', depth))
            if tier == 'thorough':
                jobs.append(('pair', dict(d, n_batch=nb), dict(pool_l=0), dict(pool_l=4), 'pool-none-vs-4', depth))
        if tier == 'quick':
            # non-nested bounds keep transfer candidates pending over several batches: the only place
            # where the incrementally written transfer arrays matter for a run that is never resumed
            for s in scenarios.get(['funnel_net', 'ring_split_net']):
                jobs.append(('pair', dict(s), dict(file=True), dict(file=False), 'file-vs-nofile', 45))
        for s in scenarios.get(['gauss'] if tier == 'quick' else ['gauss', 'two', 'blob_float']):
            for size in ((2,) if tier == 'quick' else (1, 2, 3)):
                jobs.append(('mp', dict(s), size, 0))
    if prop == 'C12':
        for s in scns:
            jobs.append(('threeways', dict(s)))
    if prop in ('C01', 'C02'):
        for s in scns:
            if s['file']:
                jobs.append(('checkpoints', prop, dict(s)))
    if prop == 'C03':
        for size in ((0, 2) if tier == 'quick' else (0, 2, 3)):
            jobs.append(('mprows', size, False))
        jobs.append(('mprows', 0, True))
    return jobs


JOB_WATCHDOG_S = int(os.environ.get('NVMC_JOB_WATCHDOG', '600'))


def _any_job(kind, *args):
    """dispatch; the product-run / checkpoint jobs (which call run() outside Engine.apply) are guarded
    by their own watchdog: a run that does not come back is reported as a violation, not waited for"""
    import signal
    import warnings
    warnings.simplefilter('ignore')
    if kind == 'explore':
        return _job(*args)
    if kind in ('pair', 'threeways', 'checkpoints'):
        def on_alarm(signum, frame):
            raise smc.Hang('job exceeded {} s'.format(JOB_WATCHDOG_S))
        signal.signal(signal.SIGALRM, on_alarm)
        signal.alarm(JOB_WATCHDOG_S)
        try:
            return _any_job_inner(kind, *args)
        except smc.Hang as e:
            prop = args[0] if kind == 'checkpoints' else ('C11' if kind == 'pair' else 'C12')
            scn_d = args[1] if kind == 'checkpoints' else args[0]
            return dict(violations=[Violation(
                prop, 'hang:{}-job'.format(kind), 'scenario {}: {} ({})'.format(
                    scn_d.get('name'), e, kind), dict(kind=kind, scenario=scn_d))],
                label=kind, scenario=scn_d.get('name'), depth=0, final=None)
        finally:
            signal.alarm(0)
    return _any_job_inner(kind, *args)


def _any_job_inner(kind, *args):
    if kind == 'explore':
        return _job(*args)
    if kind == 'pair':
        return _pair_job(*args)
    if kind == 'mp':
        return _mp_job(*args)
    if kind == 'mprows':
        return _mp_rows_job(*args)
    if kind == 'threeways':
        return _three_ways_job(*args)
    if kind == 'checkpoints':
        return _checkpoints_job(*args)
    return _det_job(*args)


def run(prop, tier):
    """generic driver: explorations of all (scenario, variant) pairs in parallel, then the
    determinism proof on the default path of each scenario (two fresh processes), then evidence."""
    timer = core.Timer()
    entries = SCENARIOS[prop][tier]
    if os.environ.get('NVMC_ENTRIES'):
        # debugging aid: explore only the named catalog entries (never set by a registered command)
        entries = os.environ['NVMC_ENTRIES'].split(',')
    names = [e.split(':')[0] for e in entries]
    scns0 = scenarios.get(names)
    variants = VARIANTS[prop][tier]
    # an entry 'name:v1+v2' restricts the scenario to the named variants
    pairs = []
    for e, s in zip(entries, scns0):
        vs = e.split(':')[1].split('+') if ':' in e else variants
        pairs += [(s, v) for v in vs]
    # long jobs first
    results = core.pmap(_any_job, [('explore', prop, tier, dict(s), v) for s, v in pairs])
    scns = [s for s, v in pairs]
    # determinism proof: default path replayed in two fresh processes
    det_jobs = []
    first = {}
    for s, r in zip(scns, results):
        if s.name in first:
            continue
        first[s.name] = r
        depth = min(len(r['default_keys']) - 1, 12 if tier == 'quick' else 40)
        for variant in (0, 1):
            det_jobs.append(('det', dict(s), depth, variant))
    xjobs = extra_jobs(prop, tier, scns0, results)
    pool_jobs = [j for j in xjobs if j[0] not in ('mp', 'mprows')]
    main_jobs = [j for j in xjobs if j[0] in ('mp', 'mprows')]
    allres = core.pmap(_any_job, det_jobs + pool_jobs)
    det = allres[:len(det_jobs)]
    xres = allres[len(det_jobs):] + [_any_job(*j) for j in main_jobs]
    n_det = 0
    det_viol = []
    first_scn = {s.name: s for s in scns}
    for i, name in enumerate(first):
        r = first[name]
        a, b = det[2 * i], det[2 * i + 1]
        ref = r['default_keys'][:len(a)]
        if a != b or a != ref:
            k = next((j for j in range(min(len(a), len(b), len(ref)))
                      if not (a[j] == b[j] == ref[j])), -1)
            if prop == 'C11':
                # for C11 this IS the property: same seed and settings, different result
                det_viol.append(Violation(
                    'C11', 'same-seed:fresh-processes-differ',
                    'scenario {}: two samplers with the same seed and settings (two fresh processes '
                    'and the explorer) reach different states from batch {} on'.format(name, k),
                    dict(kind='det', scenario=dict(first_scn[name]), depth=len(a) - 1)))
                continue
            raise core.Inconclusive(
                'HARNESS-NONDETERMINISM scenario={} first differing depth={}'.format(name, k))
        n_det += 2
    violations = list(det_viol)
    for r, s in zip(results, scns):
        violations.extend(r['violations'])
        for oe in r['observation_errors']:
            violations.append(Violation(
                prop, 'exception:observation:{}:{}'.format(oe['type'], oe['site']),
                'posterior()/log_z/n_eff of a finished sampler raised {}: {}'.format(
                    oe['type'], oe['msg']), dict(scenario=dict(s), path=oe['path'])))
    if prop in ('C05', 'C11', 'C12'):
        violations.extend(terminal_agreement(prop, scns, results))
    for x in xres:
        violations.extend(x['violations'])
    states = sum(r['states'] for r in results)
    transitions = sum(r['transitions'] for r in results)
    capped = [(r['scenario'], r['variant'], r['capped']) for r in results if r['capped']]
    samples = []
    for r in results:
        samples.extend(r['samples'][:1])
    coverage = dict(
        states=states, transitions=transitions,
        traces_validated_against_impl=transitions + n_det + len(xres),
        product_runs=[dict(scenario=x['scenario'], label=x['label'], depth=x['depth'])
                      for x in xres],
        samples=samples[:8],
        exhaustive=not capped,
        caps_hit=capped,
        per_exploration=[dict(scenario=r['scenario'], variant=r['variant'], budgets=r['budgets'],
                              states=r['states'], transitions=r['transitions'],
                              max_depth=r['max_depth'], exceptions=r['exceptions'],
                              wall_s=round(r['wall'], 1),
                              terminal_observation_classes={k: len(v) for k, v in
                                                            r['terminals'].items()})
                         for r in results],
        scenarios=[s.describe() for s in scns0],
        determinism_replays=n_det,
        explanation='every transition is one public-API call on the real nautilus.Sampler '
                    '(unpickled from the explored state, checkpoint file materialised in a private '
                    'scratch directory); states are de-duplicated on a structural digest of the '
                    'whole sampler + logical HDF5 content + evaluated-point set; each (scenario, '
                    'variant) is a complete breadth-first exploration of the histories over the '
                    'variant\'s action alphabet within its deviation budgets (R resumes, T toggles, '
                    'S pool-schedule deviations); the default path of every scenario was replayed '
                    'in two fresh processes (different PYTHONHASHSEED, legacy numpy seed, COLUMNS) '
                    'with identical per-depth digests',
        assumptions=ASSUMPTIONS.get(prop, []) + COMMON_ASSUMPTIONS)
    return coverage, violations, timer()


COMMON_ASSUMPTIONS = [
    'finite scenario alphabet (likelihood x configuration x seed, shifted by VERIF_SEED); exhaustive '
    'within each scenario and budget, not over all likelihoods and seeds',
    'FakePool (pickle-isolated tasks, ordered map) models a process pool',
]
ASSUMPTIONS = dict(
    C01=['contains() of the implementation is the membership predicate (C07/C09 guard its meaning)'],
    C02=['float comparisons at rtol 1e-9 (the oracle sums in a different order); states where every '
         'stored likelihood is -inf are skipped (estimators undefined)'],
    C03=['likelihoods use only + - * / sqrt floor where, so scalar and vectorised evaluation are '
         'bit-identical'],
    C05=['mid-step checkpoints (visible only to a kill) belong to C06'],
    C10=['virtual clock: one tick per look at the clock, so timeout=k allows max(k-1,0) batches; '
         'return value checked except when the recomputed n_eff is within 1e-9 of the target'],
    C11=['"unweighted posterior" is read as posterior() with default arguments; '
         'posterior(equal_weight=True) draws from the generator by design (C14)'],
    C12=['a toggle made after the last checkpoint is not persisted; a resumed sampler is compared '
         'with the state as of the last checkpoint'],
)


def replay(prop, path):
    with open(path) as f:
        rep = json.load(f)
    r = rep['replay']
    kind = r.get('kind', 'path')
    print('replaying', rep['signature'])
    if kind == 'pair':
        out = _pair_job(r['scenario'], r['over_a'], r['over_b'], r['label'], r['depth'])['violations']
    elif kind == 'mp':
        out = _mp_job(r['scenario'], r['size'], 0)['violations']
    elif kind == 'mprows':
        out = _mp_rows_job(r['size'], r['vectorized'])['violations']
    elif kind == 'threeways':
        out = _three_ways_job(r['scenario'])['violations']
    elif kind == 'checkpoints':
        out = _checkpoints_job(prop, r['scenario'])['violations']
    elif kind == 'det':
        a = _det_job(r['scenario'], r['depth'], 0)
        b = _det_job(r['scenario'], r['depth'], 1)
        out = [Violation(prop, rep['signature'], 'fresh-process replays differ')] if a != b else []
    elif kind == 'terminal':
        scn = _mk(r['scenario'])
        oa = _path_obs(scn, r['path'])
        ob = _path_obs(scn, r['path_b'])
        out = []
        if oa[0][-1] != ob[0][-1]:
            out = [Violation(prop, rep['signature'], 'results differ: {} vs {}'.format(oa[1], ob[1]))]
    else:
        scn = _mk(r['scenario'])
        mons = config(prop, 'thorough', scn, VARIANTS[prop]['thorough'][0])['monitors']
        keys, out = smc.replay_path(scn, [tuple(a) for a in r['path']], mons)
    hit = [v for v in out if v['signature'] == rep['signature']]
    for v in hit[:1]:
        print('VIOLATION property={} replay={}'.format(prop, path))
        print(' ', v['signature'], str(v['explanation'])[:600])
    return 1 if hit else 0
