"""Engine-A checks (C01, C02, C03, C05, C10, C11, C12): configurations, driver, evidence."""
import json
import os
import subprocess
import sys

from . import core, scen, scenarios, smc, monitors as M, VERIF
from .core import Violation


# --------------------------------------------------------------------------------------------
# per-property exploration configurations (looked up by name inside worker processes)
# --------------------------------------------------------------------------------------------

def _alpha(*acts):
    def alphabet(st):
        return list(acts)
    return alphabet


def _explored_flag(st):
    # cheap: the path tells nothing; read it off the pickled sampler only when needed
    return st.sampler().explored


def cfg_C01(tier, scn=None):
    return dict(alphabet=_alpha(('step',), ('resume',)),
                monitors=[M.mon_exception('C01'), M.mon_partition],
                R=1 if tier == 'quick' else 2, T=0)


def _alpha_t(tier, every):
    """step / resume everywhere; toggle at every batch boundary (thorough) or every `every`-th"""
    def alphabet(st):
        acts = [('step',), ('resume',)]
        if tier == 'thorough' or st.depth % every == 0:
            acts.append(('toggle',))
        return acts
    return alphabet


def cfg_C02(tier, scn=None):
    return dict(alphabet=_alpha_t(tier, 4),
                monitors=[M.mon_exception('C02'), M.mon_estimators],
                R=1, T=1 if tier == 'quick' else 2)


def cfg_C03(tier, scn=None):
    return dict(alphabet=_alpha_t(tier, 5),
                monitors=[M.mon_exception('C03'), M.mon_rows],
                R=1 if tier == 'quick' else 2, T=1)


def _alpha_C05(tier):
    def alphabet(st):
        acts = [('step',), ('resume',)]
        if tier == 'thorough' or st.depth == 0 or (st.path and st.path[-1][0] == 'resume'):
            acts.append(('finish',))
        if tier == 'thorough' or st.depth % 3 == 0:
            acts.append(('run2',))
            acts.append(('tick', 2))
        if tier == 'thorough':
            acts.append(('tick', 3))
        return acts
    return alphabet


def cfg_C05(tier, scn=None):
    return dict(alphabet=_alpha_C05(tier),
                monitors=[M.mon_exception('C05'), M.mon_once('C05')],
                R=1 if tier == 'quick' else 2, T=0)


def _loops_C10(st):
    return [('cap', 'zero'), ('cap', 'below'), ('cap', 'at'), ('tick', 0), ('tick', 1)]


def cfg_C10(tier, scn=None):
    def alphabet(st):
        acts = [('step',), ('resume',), ('tick', 2)]
        if tier == 'thorough' or st.depth % 2 == 0:
            acts += [('run2',), ('tick', 3)]
        if st.depth == 0 or (st.path and st.path[-1][0] == 'resume' and (
                tier == 'thorough' or st.depth % 4 == 0)):
            acts.append(('finish',))
        return acts

    return dict(alphabet=alphabet, loops=_loops_C10,
                monitors=[M.mon_exception('C10'), M.mon_calls, M.mon_noop('C10')],
                R=1, T=0, terminal_alphabet=_terminal_raise)


def _terminal_raise(st):
    """at a terminal state whose targets are still the scenario's: raise n_eff (x1.6) or n_shell"""
    if not any(a[0] == 'raise' for a in st.path):
        n_eff, n_shell = st.target
        return [('raise', int(n_eff * 1.6), n_shell), ('raise', n_eff, 4)]
    return []


def _loops_C11(st):
    return [('observe',)]


def cfg_C11(tier, scn=None):
    def alphabet(st):
        acts = [('step',)]
        if scn is not None and scn['pool_l']:
            acts += [('sched', 'rev'), ('sched', 'rot1')]
            if tier == 'thorough':
                acts += [('sched', 'rot2'), ('sched', 'perm3'), ('sched', 'perm7')]
        return acts
    return dict(alphabet=alphabet, loops=_loops_C11,
                monitors=[M.mon_exception('C11'), M.mon_pure],
                R=0, T=0, S=1 if tier == 'quick' else 2)


def cfg_C12(tier, scn=None):
    return dict(alphabet=_alpha_t(tier, 3),
                monitors=[M.mon_exception('C12'), M.mon_freeze, M.mon_toggle,
                          M.mon_resume_obs('C12')],
                R=1, T=2 if tier == 'quick' else 3, terminal_alphabet=_terminal_raise)


CONFIGS = dict(C01=cfg_C01, C02=cfg_C02, C03=cfg_C03, C05=cfg_C05, C10=cfg_C10, C11=cfg_C11,
               C12=cfg_C12)

SCENARIOS = dict(
    C01=dict(quick=['gauss', 'two', 'wrap_net', 'half'],
             thorough=['gauss', 'gauss_net', 'two', 'ring_net', 'half', 'plateau', 'wrap',
                       'wrap_net', 'g3_pool_s', 'two_pool_s', 'b7_update', 'blob_two_obj']),
    C02=dict(quick=['gauss_d', 'half', 'two', 'b7_update'],
             thorough=['gauss', 'gauss_d', 'gauss_net', 'two', 'ring_net', 'half', 'plateau',
                       'wrap_net', 'g3_pool_s', 'b7_update', 'b1', 'blob_f32_inplace']),
    C03=dict(quick=['blob_float', 'blob_int_vec', 'blob_two_obj', 'blob_array_pool',
                    'blob_struct_dictfn', 'blob_f32_inplace', 'blob_float_b1', 'blob_two_b2_vec'],
             thorough=['blob_float', 'blob_int_vec', 'blob_two_obj', 'blob_array_pool',
                       'blob_struct_dictfn', 'blob_f32_inplace', 'blob_float_b1', 'blob_array_b1',
                       'blob_two_b2_vec', 'blob_struct_b1', 'vec_inplace', 'obj_array_vec',
                       'dictfn_vec_net', 'pool_l3', 'gauss', 'wrap_net']),
    C05=dict(quick=['gauss', 'gauss_net', 'wrap_net', 'blob_two_obj'],
             thorough=['gauss', 'gauss_d', 'gauss_net', 'two', 'ring_net', 'half', 'wrap',
                       'wrap_net', 'g3_pool_s', 'blob_float', 'blob_int_vec', 'blob_two_obj',
                       'blob_array_pool', 'blob_struct_dictfn', 'blob_f32_inplace',
                       'dictfn_vec_net', 'b7_update']),
    C10=dict(quick=['gauss', 'b7_update', 'half'],
             thorough=['gauss', 'gauss_d', 'b7_update', 'half', 'b1', 'two', 'wrap_net',
                       'blob_int_vec', 'pool_l3']),
    C11=dict(quick=['gauss', 'blob_array_pool', 'wrap_net'],
             thorough=['gauss', 'gauss_net', 'blob_array_pool', 'pool_l3', 'wrap_net', 'two',
                       'nofile', 'blob_two_obj']),
    C12=dict(quick=['gauss', 'gauss_d', 'b7_update'],
             thorough=['gauss', 'gauss_d', 'b7_update', 'b1', 'two', 'half', 'wrap_net',
                       'blob_float', 'blob_two_obj']),
)

LEVEL = 'model_checking'


def _job(prop, tier, scn_dict):
    d = dict(scn_dict)
    name = d.pop('name')
    seed = d.pop('seed')
    scn = scen.Scenario(name, **d)
    scn['seed'] = seed
    cfg = CONFIGS[prop](tier, scn)
    return smc.explore(scn, cfg['alphabet'], cfg['monitors'], R=cfg.get('R', 1), T=cfg.get('T', 0),
                       S=cfg.get('S', 0), loops=cfg.get('loops'),
                       terminal_alphabet=cfg.get('terminal_alphabet'),
                       max_states=cfg.get('max_states', 6000), time_cap=cfg.get('time_cap'))


def _det_job(scn_dict, depth, variant):
    """default path in a FRESH interpreter with its own hash seed / legacy seed / terminal width"""
    env = dict(os.environ)
    env['PYTHONHASHSEED'] = str(11 + 97 * variant)
    env['NVMC_LEGACY_SEED'] = str(5 + variant)
    env['COLUMNS'] = str(80 + 37 * variant)
    env['PYTHONPATH'] = VERIF + os.pathsep + env.get('PYTHONPATH', '')
    spec = json.dumps(dict(scenario=scn_dict, depth=depth))
    p = subprocess.run([sys.executable, '-m', 'nvmc.detrun', spec], env=env, cwd=VERIF,
                       capture_output=True, text=True, timeout=3600)
    for line in p.stdout.splitlines():
        if line.startswith('KEYS '):
            return json.loads(line[5:])
    raise core.Inconclusive('detrun failed: ' + p.stderr[-2000:])


def _mk(scn_dict, **over):
    d = dict(scn_dict)
    name = d.pop('name')
    seed = d.pop('seed')
    d.update(over)
    scn = scen.Scenario(name, **d)
    scn['seed'] = seed
    return scn


def _path_obs(scn, path, every=True):
    """replays a path on a fresh sampler; returns per-depth observation digests (None where no
    sample is stored yet) and the final summary"""
    eng = smc.Engine(scn, [])
    try:
        st = eng.initial()
        obs = []
        summ = None
        for act in path:
            new, ctx = eng.apply(st, tuple(act))
            if new is None:
                obs.append('EXC:{}'.format(ctx['exc']))
                break
            s = ctx['post']
            if act[0] in ('step', 'finish', 'run2', 'resume', 'toggle', 'runarg') and len(
                    s.bounds) and int(sum(len(x) for x in s.log_l)) > 0:
                try:
                    d, summ = smc.observation(s)
                except Exception as e:
                    d = 'EXC:{}:{}'.format(type(e).__name__, str(e)[:80])
                obs.append(d)
            else:
                obs.append(None)
            st = new
            if new.terminal:
                break
        return obs, summ, st.skey, st.fkey
    finally:
        eng.close()


def _pair_job(scn_dict, over_a, over_b, label, depth):
    """C11(b): lock-step product run of two configurations that must be indistinguishable"""
    a = _mk(scn_dict, **over_a)
    b = _mk(scn_dict, **over_b)
    path = [('step',)] * depth
    oa, sa, _, _ = _path_obs(a, path)
    ob, sb, _, _ = _path_obs(b, path)
    out = []
    if oa != ob:
        k = next((i for i in range(min(len(oa), len(ob))) if oa[i] != ob[i]), min(len(oa), len(ob)))
        out.append(Violation('C11', 'pair:' + label, 'configurations {} and {} of scenario {} give '
                             'different results from depth {} on ({} vs {})'.format(
                                 over_a, over_b, scn_dict['name'], k, sa, sb),
                             dict(kind='pair', scenario=scn_dict, over_a=over_a, over_b=over_b,
                                  label=label, depth=depth)))
    return dict(violations=out, depth=len(oa), label=label, scenario=scn_dict['name'],
                final=sa)


def _mp_job(scn_dict, size, depth):
    """C11(d): conformance of FakePool to real multiprocessing pools (free running): the final
    observation of a run with Sampler(pool=size) equals the serial one"""
    import numpy as np
    import functools
    from nautilus import Sampler
    scn = _mk(scn_dict, pool_l=0, pool_s=0, file=False)
    serial = scn.build()
    scen.LOG['on'] = False
    try:
        A = scn.run_args()
        serial.run(**A)
        d0, s0 = smc.observation(serial)
        kw = scn.sampler_kwargs()
        kw['pool'] = size
        kw['n_dim'] = scn['n_dim']
        par = Sampler(scen.prior_identity, functools.partial(scen.likelihood_array, scn['like'],
                                                             scn['blob']), **kw)
        try:
            par.run(**A)
            d1, s1 = smc.observation(par)
        finally:
            for pl in (par.pool_l, par.pool_s):
                if pl is not None:
                    pl.pool.terminate()
    finally:
        scen.LOG['on'] = True
    out = []
    if d0 != d1:
        out.append(Violation('C11', 'pool:multiprocessing-size-{}'.format(size),
                             'a run with a real multiprocessing pool of size {} differs from the '
                             'serial run: {} vs {}'.format(size, s1, s0),
                             dict(kind='mp', scenario=scn_dict, size=size)))
    return dict(violations=out, label='mp{}'.format(size), scenario=scn_dict['name'], final=s1,
                depth=0)


def _three_ways_job(scn_dict):
    """C12: the three ways of getting discard_exploration on (argument of run(); setter right after
    exploration ended; setter after a resume) give the same statistics at every later batch."""
    base = _mk(scn_dict, discard=False)
    arg = _mk(scn_dict, discard=True)
    # depth at which exploration ends on the default path
    eng = smc.Engine(base, [])
    try:
        st = eng.initial()
        k_exp = None
        for k in range(400):
            new, ctx = eng.apply(st, ('step',))
            st = new
            if ctx['post'].explored:
                k_exp = k + 1
                break
    finally:
        eng.close()
    out = []
    if k_exp is None:
        return dict(violations=out, label='3ways', scenario=scn_dict['name'], depth=0, final=None)
    tail = 6
    p_arg = [('step',)] * (k_exp + tail)
    p_set = [('step',)] * k_exp + [('toggle',)] + [('step',)] * tail
    p_res = [('step',)] * k_exp + [('resume',), ('toggle',)] + [('step',)] * tail
    p_res2 = [('step',)] * k_exp + [('toggle',), ('step',), ('resume',)] + [('step',)] * (tail - 1)
    o_arg, s_arg, k_arg, f_arg = _path_obs(arg, p_arg)
    o_set, s_set, k_set, f_set = _path_obs(base, p_set)
    o_res, s_res, k_res, f_res = _path_obs(base, p_res)
    o_res2, s_res2, k_res2, f_res2 = _path_obs(base, p_res2)
    ref = o_arg[k_exp - 1:]
    cmp = [('setter-after-run', [o_set[k_exp - 1]] + o_set[k_exp + 1:], p_set),
           ('setter-after-resume', [o_res[k_exp - 1]] + o_res[k_exp + 2:], p_res),
           ('setter-step-resume', [o_res2[k_exp - 1]] + [o_res2[k_exp + 1]] + o_res2[k_exp + 3:],
            p_res2)]
    # before the toggle the non-discarding sampler legitimately shows the exploration samples
    for label, got, path in cmp:
        g = got[1:]
        r = ref[1:len(g) + 1]
        if g != r:
            j = next((i for i in range(min(len(g), len(r))) if g[i] != r[i]), -1)
            out.append(Violation('C12', 'threeways:' + label + (
                ':raises' if any(isinstance(x, str) and x.startswith('EXC') for x in g) else ''),
                'discard_exploration requested through run() and through "{}" give different '
                'statistics {} batch(es) after exploration ended: {} vs {}'.format(
                    label, j + 1, g[j] if j >= 0 else g, r[j] if j >= 0 else r),
                dict(kind='threeways', scenario=scn_dict, label=label, path=path)))
    if k_arg != k_set and not out:
        out.append(Violation('C12', 'threeways:sampler-state', 'run(discard_exploration=True) and '
                             'the setter reach different sampler states',
                             dict(kind='threeways', scenario=scn_dict, label='state')))
    if f_arg != f_set and not out:
        out.append(Violation('C12', 'threeways:file-state', 'run(discard_exploration=True) and the '
                             'setter leave different checkpoint contents after the next checkpoint '
                             'operations', dict(kind='threeways', scenario=scn_dict, label='file')))
    return dict(violations=out, label='3ways', scenario=scn_dict['name'], depth=k_exp + tail,
                final=s_arg)


def terminal_agreement(prop, scns, results):
    out = []
    for s, r in zip(scns, results):
        for cls, obs in r['terminals'].items():
            if len(obs) > 1:
                items = sorted(obs.items(), key=lambda kv: len(kv[1]['path']))
                (d0, a), (d1, b) = items[0], items[1]
                out.append(Violation(
                    prop, 'terminal:results-differ',
                    'scenario {}: two histories of the same computation end with different results: '
                    '{} via {} actions vs {} via {} actions ({} classes in total)'.format(
                        s.name, a['summary'], len(a['path']), b['summary'], len(b['path']),
                        len(obs)),
                    dict(kind='terminal', scenario=dict(s), path=a['path'], path_b=b['path'])))
    return out


def extra_jobs(prop, tier, scns, results):
    jobs = []
    if prop == 'C11':
        names = ['gauss', 'blob_float', 'wrap_net'] if tier == 'quick' else [
            'gauss', 'blob_float', 'wrap_net', 'two', 'gauss_net', 'blob_two_obj', 'half']
        for s in scenarios.get(names):
            d = dict(s)
            depth = 12 if tier == 'quick' else 60
            jobs.append(('pair', d, dict(vectorized=False), dict(vectorized=True), 'scalar-vs-vectorized', depth))
            jobs.append(('pair', d, dict(verbose=False), dict(verbose=True), 'verbose', depth))
            jobs.append(('pair', d, dict(file=True), dict(file=False), 'file-vs-nofile', depth))
            nb = 12
            jobs.append(('pair', dict(d, n_batch=nb), dict(pool_l=0), dict(pool_l=2), 'pool-none-vs-2', depth))
            jobs.append(('pair', dict(d, n_batch=nb), dict(pool_l=2), dict(pool_l=3), 'pool-2-vs-3', depth))
            if tier == 'thorough':
                jobs.append(('pair', dict(d, n_batch=nb), dict(pool_l=0), dict(pool_l=4), 'pool-none-vs-4', depth))
        for s in scenarios.get(['gauss'] if tier == 'quick' else ['gauss', 'two', 'blob_float']):
            for size in ((2,) if tier == 'quick' else (1, 2, 3)):
                jobs.append(('mp', dict(s), size, 0))
    if prop == 'C12':
        for s in scns:
            jobs.append(('threeways', dict(s)))
    return jobs


def _any_job(kind, *args):
    if kind == 'explore':
        return _job(*args)
    if kind == 'pair':
        return _pair_job(*args)
    if kind == 'mp':
        return _mp_job(*args)
    if kind == 'threeways':
        return _three_ways_job(*args)
    return _det_job(*args)


def run(prop, tier):
    """generic driver: explorations of all scenarios in parallel, then the determinism proof on the
    default path of each (two fresh processes), then evidence."""
    timer = core.Timer()
    names = SCENARIOS[prop][tier]
    scns = scenarios.get(names)
    results = core.pmap(_any_job, [('explore', prop, tier, dict(s)) for s in scns])
    # determinism proof: default path replayed in two fresh processes
    det_jobs = []
    for s, r in zip(scns, results):
        depth = min(len(r['default_keys']) - 1, 12 if tier == 'quick' else 40)
        for variant in (0, 1):
            det_jobs.append(('det', dict(s), depth, variant))
    xjobs = extra_jobs(prop, tier, scns, results)
    allres = core.pmap(_any_job, det_jobs + xjobs)
    det = allres[:len(det_jobs)]
    xres = allres[len(det_jobs):]
    n_det = 0
    for i, (s, r) in enumerate(zip(scns, results)):
        a, b = det[2 * i], det[2 * i + 1]
        ref = r['default_keys'][:len(a)]
        if a != b or a != ref:
            k = next((j for j in range(min(len(a), len(b), len(ref)))
                      if not (a[j] == b[j] == ref[j])), -1)
            raise core.Inconclusive(
                'HARNESS-NONDETERMINISM scenario={} first differing depth={}'.format(s.name, k))
        n_det += 2
    violations = []
    for r, s in zip(results, scns):
        violations.extend(r['violations'])
        for oe in r['observation_errors']:
            violations.append(Violation(
                prop, 'exception:observation:{}:{}'.format(oe['type'], oe['site']),
                'posterior()/log_z/n_eff of a finished sampler raised {}: {}'.format(
                    oe['type'], oe['msg']), dict(scenario=dict(s), path=oe['path'])))
    if prop in ('C05', 'C11', 'C12'):
        violations.extend(terminal_agreement(prop, scns, results))
    for x in xres:
        violations.extend(x['violations'])
    transitions_x = sum(x.get('depth', 0) for x in xres)
    states = sum(r['states'] for r in results)
    transitions = sum(r['transitions'] for r in results)
    capped = [(r['scenario'], r['capped']) for r in results if r['capped']]
    classes = {r['scenario']: {k: len(v) for k, v in r['terminals'].items()} for r in results}
    samples = []
    for r in results:
        samples.extend(r['samples'][:2])
    cfg = CONFIGS[prop](tier)
    coverage = dict(
        states=states, transitions=transitions,
        traces_validated_against_impl=transitions + n_det + len(xres),
        product_runs=[dict(scenario=x['scenario'], label=x['label'], depth=x['depth']) for x in xres],
        samples=samples[:8],
        exhaustive=not capped,
        caps_hit=capped,
        deviation_bounds=dict(resumes=cfg.get('R', 1), toggles=cfg.get('T', 0),
                              schedule_deviations=cfg.get('S', 0)),
        per_scenario=[dict(scenario=r['scenario'], states=r['states'],
                           transitions=r['transitions'], max_depth=r['max_depth'],
                           exceptions=r['exceptions'], wall_s=round(r['wall'], 1),
                           terminal_observation_classes=classes[r['scenario']])
                      for r in results],
        scenarios=[s.describe() for s in scns],
        determinism_replays=n_det,
        explanation='every transition is one public-API call on the real nautilus.Sampler '
                    '(unpickled from the explored state, checkpoint file materialised in a private '
                    'scratch directory); states are de-duplicated on a structural digest of the '
                    'whole sampler + logical HDF5 content + evaluated-point set; the default path '
                    'of every scenario was replayed in two fresh processes (different '
                    'PYTHONHASHSEED, legacy numpy seed, COLUMNS) with identical per-depth digests')
    return coverage, violations, timer()
