"""Engine-A checks (C01, C02, C03, C05, C10, C11, C12): configurations, driver, evidence."""
import json
import os
import subprocess
import sys

from . import core, scen, scenarios, smc, monitors as M, VERIF
from .core import Violation


# --------------------------------------------------------------------------------------------
# per-property exploration configurations (looked up by name inside worker processes)
# --------------------------------------------------------------------------------------------

def _alpha(*acts):
    def alphabet(st):
        return list(acts)
    return alphabet


def _explored_flag(st):
    # cheap: the path tells nothing; read it off the pickled sampler only when needed
    return st.sampler().explored


def cfg_C01(tier):
    return dict(alphabet=_alpha(('step',), ('resume',)),
                monitors=[M.mon_exception('C01'), M.mon_partition],
                R=1 if tier == 'quick' else 2, T=0)


CONFIGS = dict(C01=cfg_C01)

SCENARIOS = dict(
    C01=dict(quick=['gauss', 'two', 'wrap_net', 'half'],
             thorough=['gauss', 'gauss_net', 'two', 'ring_net', 'half', 'plateau', 'wrap',
                       'wrap_net', 'g3_pool_s', 'two_pool_s', 'b7_update', 'blob_two_obj']),
)

LEVEL = 'model_checking'


def _job(prop, tier, scn_dict):
    d = dict(scn_dict)
    name = d.pop('name')
    seed = d.pop('seed')
    scn = scen.Scenario(name, **d)
    scn['seed'] = seed
    cfg = CONFIGS[prop](tier)
    return smc.explore(scn, cfg['alphabet'], cfg['monitors'], R=cfg.get('R', 1), T=cfg.get('T', 0),
                       S=cfg.get('S', 0), loops=cfg.get('loops'),
                       terminal_alphabet=cfg.get('terminal_alphabet'),
                       max_states=cfg.get('max_states', 6000), time_cap=cfg.get('time_cap'))


def _det_job(scn_dict, depth, variant):
    """default path in a FRESH interpreter with its own hash seed / legacy seed / terminal width"""
    env = dict(os.environ)
    env['PYTHONHASHSEED'] = str(11 + 97 * variant)
    env['NVMC_LEGACY_SEED'] = str(5 + variant)
    env['COLUMNS'] = str(80 + 37 * variant)
    env['PYTHONPATH'] = VERIF + os.pathsep + env.get('PYTHONPATH', '')
    spec = json.dumps(dict(scenario=scn_dict, depth=depth))
    p = subprocess.run([sys.executable, '-m', 'nvmc.detrun', spec], env=env, cwd=VERIF,
                       capture_output=True, text=True, timeout=3600)
    for line in p.stdout.splitlines():
        if line.startswith('KEYS '):
            return json.loads(line[5:])
    raise core.Inconclusive('detrun failed: ' + p.stderr[-2000:])


def _any_job(kind, *args):
    if kind == 'explore':
        return _job(*args)
    return _det_job(*args)


def run(prop, tier, extra_terminal_check=None):
    """generic driver: explorations of all scenarios in parallel, then the determinism proof on the
    default path of each (two fresh processes), then evidence."""
    timer = core.Timer()
    names = SCENARIOS[prop][tier]
    scns = scenarios.get(names)
    results = core.pmap(_any_job, [('explore', prop, tier, dict(s)) for s in scns])
    # determinism proof: default path replayed in two fresh processes
    det_jobs = []
    for s, r in zip(scns, results):
        depth = min(len(r['default_keys']) - 1, 12 if tier == 'quick' else 40)
        for variant in (0, 1):
            det_jobs.append(('det', dict(s), depth, variant))
    det = core.pmap(_any_job, det_jobs)
    n_det = 0
    for i, (s, r) in enumerate(zip(scns, results)):
        a, b = det[2 * i], det[2 * i + 1]
        ref = r['default_keys'][:len(a)]
        if a != b or a != ref:
            k = next((j for j in range(min(len(a), len(b), len(ref)))
                      if not (a[j] == b[j] == ref[j])), -1)
            raise core.Inconclusive(
                'HARNESS-NONDETERMINISM scenario={} first differing depth={}'.format(s.name, k))
        n_det += 2
    violations = []
    for r, s in zip(results, scns):
        violations.extend(r['violations'])
        for oe in r['observation_errors']:
            violations.append(Violation(
                prop, 'exception:observation:{}:{}'.format(oe['type'], oe['site']),
                'posterior()/log_z/n_eff of a finished sampler raised {}: {}'.format(
                    oe['type'], oe['msg']), dict(scenario=dict(s), path=oe['path'])))
    if extra_terminal_check is not None:
        violations.extend(extra_terminal_check(scns, results))
    states = sum(r['states'] for r in results)
    transitions = sum(r['transitions'] for r in results)
    capped = [(r['scenario'], r['capped']) for r in results if r['capped']]
    classes = {r['scenario']: {k: len(v) for k, v in r['terminals'].items()} for r in results}
    samples = []
    for r in results:
        samples.extend(r['samples'][:2])
    cfg = CONFIGS[prop](tier)
    coverage = dict(
        states=states, transitions=transitions,
        traces_validated_against_impl=transitions + n_det,
        samples=samples[:8],
        exhaustive=not capped,
        caps_hit=capped,
        deviation_bounds=dict(resumes=cfg.get('R', 1), toggles=cfg.get('T', 0),
                              schedule_deviations=cfg.get('S', 0)),
        per_scenario=[dict(scenario=r['scenario'], states=r['states'],
                           transitions=r['transitions'], max_depth=r['max_depth'],
                           exceptions=r['exceptions'], wall_s=round(r['wall'], 1),
                           terminal_observation_classes=classes[r['scenario']])
                      for r in results],
        scenarios=[s.describe() for s in scns],
        determinism_replays=n_det,
        explanation='every transition is one public-API call on the real nautilus.Sampler '
                    '(unpickled from the explored state, checkpoint file materialised in a private '
                    'scratch directory); states are de-duplicated on a structural digest of the '
                    'whole sampler + logical HDF5 content + evaluated-point set; the default path '
                    'of every scenario was replayed in two fresh processes (different '
                    'PYTHONHASHSEED, legacy numpy seed, COLUMNS) with identical per-depth digests')
    return coverage, violations, timer()
