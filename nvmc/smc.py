"""Engine A: explicit-state exploration of the real nautilus.Sampler (DESIGN.md section 2).

state      = (pickle of the live Sampler, bytes of its checkpoint file or None, history variables)
key(state) = digest(sampler) + digest(file) + hash(evaluated point set) + phase flags
transition = materialise the file in a private scratch directory, unpickle, apply ONE public-API
             action on the real object, run the monitors, re-pickle, read the file back.
"""
import collections
import contextlib
import hashlib
import io
import os
import pickle
import signal
import sys
import time
import traceback
import zlib

import numpy as np

from . import core, scen
from .core import Violation

WATCHDOG_S = int(os.environ.get('NVMC_WATCHDOG', '300'))


class Hang(Exception):
    pass


def _alarm(signum, frame):
    raise Hang('transition exceeded {} s'.format(WATCHDOG_S))


# --------------------------------------------------------------------------------------------
# proposal tally (independent of shell_n_sample): class-level wrappers, installed once per process
# --------------------------------------------------------------------------------------------

EVALS = []          # len(points) of every Sampler.evaluate_likelihood call
TALLY = []          # (id(bound), n_points_requested, n_returned) for every sample() that RETURNS points
_PATCHED = False


def install_tally():
    global _PATCHED
    if _PATCHED:
        return
    from nautilus.bounds import UnitCube, NautilusBound
    uc_sample = UnitCube.sample
    nb_sample = NautilusBound.sample

    def uc(self, n_points=100, pool=None):
        pts = uc_sample(self, n_points, pool=pool)
        TALLY.append((id(self), n_points, len(pts)))
        return pts

    def nb(self, n_points=100, return_points=True, pool=None):
        pts = nb_sample(self, n_points, return_points=return_points, pool=pool)
        if return_points:
            TALLY.append((id(self), n_points, len(pts)))
        return pts
    from nautilus import Sampler
    ev = Sampler.evaluate_likelihood

    def evl(self, points):
        EVALS.append(len(points))
        return ev(self, points)
    evl.__wrapped__ = ev
    Sampler.evaluate_likelihood = evl
    uc.__wrapped__ = uc_sample
    nb.__wrapped__ = nb_sample
    UnitCube.sample = uc
    NautilusBound.sample = nb
    _PATCHED = True


# --------------------------------------------------------------------------------------------
# states
# --------------------------------------------------------------------------------------------

class State:
    __slots__ = ('pick', 'file', 'evald', 'resumes', 'toggles', 'terminal', 'path', 'skey', 'fkey',
                 'ekey', 'key', 'depth', 'target', 'toggled', 'nsched', 'exp_points', 'thist', 'thist_ck', 'explored', 'n_like', 'n_eff', 'dexp')

    def sampler(self):
        return pickle.loads(zlib.decompress(self.pick))


def _ekey(evald):
    h = 0
    for b in evald:
        h ^= int.from_bytes(hashlib.blake2b(b, digest_size=16).digest(), 'little')
    return '{:032x}:{}'.format(h, len(evald))


class Engine:
    """one exploration of one scenario; lives in one worker process"""

    def __init__(self, scn, monitors=(), file_key=True):
        self.scn = scn
        self.monitors = list(monitors)
        self.root = core.scratch_root()
        self.path = os.path.join(self.root, 'ck' + scn['ext']) if scn['file'] else None
        self.clock = scen.install_clock()
        install_tally()
        self.violations = []
        self.transitions = 0
        self.file_key = file_key
        self.t_apply = 0.0
        signal.signal(signal.SIGALRM, _alarm)

    def close(self):
        import shutil
        shutil.rmtree(self.root, ignore_errors=True)

    # ---- file helpers
    def _put_file(self, image):
        if self.path is None:
            return
        for f in os.listdir(self.root):
            os.unlink(os.path.join(self.root, f))
        if image is not None:
            with open(self.path, 'wb') as f:
                f.write(image)

    def _get_file(self):
        if self.path is None or not os.path.exists(self.path):
            return None
        with open(self.path, 'rb') as f:
            return f.read()

    def capture(self, sampler, parent, action, terminal=False, evald=None, target=None,
                parent_explored=False):
        st = State()
        st.skey = core.sampler_digest(sampler)
        st.explored = bool(sampler.explored)
        st.n_like = int(sampler.n_like)
        with np.errstate(all='ignore'):
            st.n_eff = float(sampler.n_eff) if len(sampler.bounds) else 0.0
        st.pick = zlib.compress(pickle.dumps(sampler, protocol=4), 1)
        st.file = self._get_file()
        st.fkey = core.h5_digest_bytes(st.file) if (self.file_key and st.file is not None) else \
            ('nofile' if st.file is None else hashlib.sha1(st.file).hexdigest())
        st.evald = evald if evald is not None else (parent.evald if parent else frozenset())
        st.ekey = _ekey(st.evald)
        st.resumes = (parent.resumes if parent else 0) + (1 if action and action[0] == 'resume' else 0)
        st.toggles = (parent.toggles if parent else 0) + (1 if action and action[0] == 'toggle' else 0)
        st.toggled = (parent.toggled if parent else False) or bool(action and action[0] == 'toggle')
        st.nsched = (parent.nsched if parent else 0) + (1 if action and action[0] == 'sched' else 0)
        st.terminal = terminal
        # history variables of C12: points evaluated before exploration ended (None = unknown,
        # the flip happened inside a multi-batch action), toggle history
        pe = parent.exp_points if parent else None
        pre_explored = parent_explored
        if parent is not None and pe is None and bool(sampler.explored) and not pre_explored:
            single = action[0] in ('step', 'raise', 'runarg', 'sched') or (
                action[0] == 'tick' and action[1] == 2)
            pe = st.evald if single else None
        st.exp_points = pe
        th = parent.thist if parent else (0, ())
        if action and action[0] == 'toggle':
            if pre_explored:
                th = (th[0], th[1] + (int(sampler.n_like),))
            else:
                th = (1 - th[0], th[1])
        if action and action[0] == 'resume':
            th = parent.thist_ck          # toggles made after the last checkpoint are not persisted
        st.thist = th
        if parent is None:
            st.thist_ck = th
        elif st.file != parent.file or action[0] == 'resume':
            st.thist_ck = th
        else:
            st.thist_ck = parent.thist_ck
        st.target = target if target is not None else (parent.target if parent else None)
        st.path = (parent.path if parent else ()) + ((action,) if action else ())
        st.depth = len(st.path)
        # depth at which this path first saw exploration finished
        st.dexp = parent.dexp if (parent is not None and parent.dexp is not None) else (
            st.depth if st.explored else None)
        st.key = '|'.join([st.skey, st.fkey, st.ekey, str(int(terminal)), repr(st.target),
                           repr(st.thist)])
        return st

    def initial(self):
        self._put_file(None)
        if self.scn['stale_file'] and self.path is not None:
            # the path already holds the finished checkpoint of an EARLIER computation (other seed);
            # a sampler created with resume=False must behave exactly like one on a fresh path
            other = scen.Scenario(self.scn.name + '-earlier', **{
                k: v for k, v in self.scn.items() if k not in ('name', 'seed', 'stale_file')})
            other['seed'] = self.scn['seed'] + 17
            on = scen.LOG['on']
            scen.LOG['on'] = False
            try:
                s0 = other.build(filepath=self.path, resume=False)
                s0.run(**other.run_args())
            finally:
                scen.LOG['on'] = on
        s = self.scn.build(filepath=self.path, resume=False)
        return self.capture(s, None, None, target=(self.scn['n_eff'], self.scn['n_shell']))

    # ---- one transition on the real object
    def apply(self, st, action):
        """returns (new_state or None if the action raised, ctx)"""
        scn = self.scn
        self._put_file(st.file)
        pre = st.sampler()
        post = st.sampler()
        for s in (pre, post):
            s.filepath = self.path if not scn['pathlib'] or self.path is None else \
                __import__('pathlib').Path(self.path)
        scen.log_reset()
        del TALLY[:]
        del EVALS[:]
        ctx_ids = [id(b) for b in post.bounds]
        self.clock.t = 0
        ctx = dict(scn=scn, pre=pre, post=post, action=action, state=st, ret=None, exc=None,
                   out='', engine=self, pre_file=st.file)
        kind = action[0]
        target = st.target
        buf = io.StringIO()
        t0 = time.time()
        signal.alarm(WATCHDOG_S)
        try:
            with contextlib.redirect_stdout(buf):
                with np.errstate(all='ignore'):
                    import warnings
                    with warnings.catch_warnings():
                        warnings.simplefilter('ignore')
                        ret, post, target = self._do(post, action, st)
            ctx['ret'] = ret
        except Hang as e:
            ctx['exc'] = ('Hang', str(e), '')
        except Exception as e:
            tb = traceback.extract_tb(e.__traceback__)
            site = ''
            for fr in tb[::-1]:
                if '/nautilus/' in fr.filename and '/nvmc/' not in fr.filename:
                    site = '{}:{}'.format(os.path.basename(fr.filename), fr.name)
                    break
            ctx['exc'] = (type(e).__name__, str(e)[:300], site)
            ctx['tb'] = traceback.format_exc()
        finally:
            signal.alarm(0)
        self.t_apply += time.time() - t0
        ctx['post'] = post
        ctx['out'] = buf.getvalue()
        ctx['log_prior'] = scen.LOG['prior']
        ctx['log_like'] = scen.LOG['like']
        ctx['tally'] = list(TALLY)
        ctx['evals'] = list(EVALS)
        ctx['bound_ids_before'] = ctx_ids
        ctx['clock'] = self.clock.t
        self.transitions += 1
        new = None
        if ctx['exc'] is None:
            # evaluated points (unit cube, as logged by the prior wrapper)
            pts = [np.atleast_2d(p) for p in ctx['log_prior']]
            evald = st.evald
            newpts = []
            if pts:
                allp = np.concatenate(pts)
                newpts = [np.ascontiguousarray(r).tobytes() for r in allp]
                evald = st.evald | frozenset(newpts)
            ctx['new_points'] = newpts
            ctx['dup_points'] = (len(set(newpts)) != len(newpts)) or bool(st.evald & frozenset(newpts))
            terminal = (ret is not None and bool(ret)) and kind in ('step', 'run2', 'finish', 'raise', 'tick', 'cap',
                                                  'runarg', 'sched', 'runto')
            new = self.capture(post, st, action, terminal=terminal, evald=evald, target=target,
                               parent_explored=bool(pre.explored))
        ctx['new'] = new
        for mon in self.monitors:
            try:
                for v in mon(ctx) or ():
                    v['replay'] = dict(scenario=dict(scn), path=list(st.path) + [action])
                    self.violations.append(v)
            except Hang:
                raise
        return new, ctx

    def _do(self, s, action, st):
        scn = self.scn
        kind = action[0]
        target = st.target
        n_eff, n_shell = target
        A = scn.run_args(n_eff=n_eff, n_shell=n_shell)
        if kind == 'step':
            return s.run(**A, n_like_max=s.n_like + 1), s, target
        if kind == 'run2':
            return s.run(**A, n_like_max=s.n_like + scn['n_batch'] + 1), s, target
        if kind == 'finish':
            return s.run(**A), s, target
        if kind == 'cap':
            m = dict(zero=0, below=s.n_like - 1, at=s.n_like)[action[1]]
            return s.run(**A, n_like_max=m), s, target
        if kind == 'tick':
            return s.run(**A, timeout=action[1]), s, target
        if kind == 'runarg':
            # one batch with an explicit discard_exploration argument
            A2 = dict(A, discard_exploration=action[1])
            return s.run(**A2, n_like_max=s.n_like + 1), s, target
        if kind == 'resume':
            # the pools of the new object are fresh FakePools like in a re-run script
            s2 = scn.build(filepath=self.path, resume=True)
            return None, s2, target
        if kind == 'toggle':
            s.discard_exploration = not bool(s.discard_exploration)
            return None, s, target
        if kind == 'sched':
            # one batch whose likelihood-pool tasks complete in the given (deviating) order
            pool = s.pool_l.pool
            pool.schedule = {pool.n_map: action[1]}
            return s.run(**A, n_like_max=s.n_like + 1), s, target
        if kind == 'raise':
            target = (action[1], action[2])
            A = scn.run_args(n_eff=target[0], n_shell=target[1])
            return s.run(**A, n_like_max=s.n_like + 1), s, target
        if kind == 'runto':
            # run to completion with raised targets (many batches of the sampling phase, including
            # batches drawn from early shells when n_shell asks for it)
            target = (action[1], action[2])
            A = scn.run_args(n_eff=target[0], n_shell=target[1])
            return s.run(**A), s, target
        if kind == 'observe':
            return observe(s, scn), s, target
        raise ValueError(action)


def observe(s, scn):
    """every read-only accessor (C11): returns a digest of what they returned"""
    import warnings
    out = []
    with warnings.catch_warnings():
        warnings.simplefilter('ignore')
        out.append(s.log_z)
        out.append(s.n_eff)
        if len(s.bounds) > 0 and np.sum(s.shell_n) > 0:
            out.append(s.eta)
            out.append(s.asymptotic_sampling_efficiency())
        out.append(s.f_live)
        if not s.explored:
            # "live" quantities are only defined while exploring (f_live is None afterwards; log_v_live
            # is an internal input of add_bound and is not among the accessors C11 names)
            out.append(s.log_v_live)
        out.append(s.evidence())
        out.append(s.effective_sample_size())
        out.append(bool(s.discard_exploration))
        if len(s.bounds) > 0 and np.sum(s.shell_n) > 0:
            out.append(list(s.posterior()))
            if s.blobs is not None:
                out.append(list(s.posterior(return_blobs=True)))
            if not (s._discard_exploration and s.explored) and np.all(
                    [len(p) > 0 for p in s.points]):
                out.append(s.shell_bound_occupation())
                out.append(s.shell_bound_occupation(fractional=False))
            s.print_status()
            s.print_status(header=True)
    return core.digest(out)


def observation(s):
    """what a user reads off a finished sampler (C05/C11/C12): digest + summary"""
    with np.errstate(all='ignore'):
        post = list(s.posterior(return_blobs=s.blobs is not None))
        if isinstance(post[0], dict):
            post[0] = [post[0][k] for k in sorted(post[0])]
        if len(post[1]) == 0:
            # an EMPTY view (discard on, nothing sampled yet) comes back as shape (0,) from the scalar
            # route and (0, n_dim) from the vectorised one: no row, no difference in content
            post[0] = 'no rows'
        obs = dict(posterior=post, log_z=s.log_z, n_eff=s.n_eff, n_like=s.n_like)
    d = core.digest(obs)
    summ = dict(log_z=None if s.log_z is None else float(s.log_z), n_eff=float(s.n_eff),
                n_like=int(s.n_like), rows=int(len(post[1])), digest=d[:16])
    return d, summ


# --------------------------------------------------------------------------------------------
# search
# --------------------------------------------------------------------------------------------

def explore(scn, alphabet, monitors, R=1, T=0, S=0, max_states=4000, loops=None, terminal_alphabet=None,
            file_key=True, time_cap=None):
    """Breadth-first exploration with state de-duplication.

    alphabet(state)  -> iterable of enqueued actions (budgets are applied here: resume <= R,
                        toggle <= T, sched <= S)
    loops(state)     -> actions that must be self-loops (never enqueued); checked by monitors
    Returns a result dict (stats, violations, terminal observations, samples).
    """
    eng = Engine(scn, monitors, file_key=file_key)
    t0 = time.time()
    res = dict(scenario=scn.name, states=0, transitions=0, violations=[], terminals={}, capped=False,
               samples=[], max_depth=0, exceptions=0, observation_errors=[])
    try:
        init = eng.initial()
        seen = {init.key: [(init.resumes, init.toggles, init.nsched)]}
        frontier = collections.deque([init])
        states = 1
        res['default_keys'] = [init.key]
        while frontier:
            st = frontier.popleft()
            res['max_depth'] = max(res['max_depth'], st.depth)
            if time_cap is not None and time.time() - t0 > time_cap:
                res['capped'] = 'time {} s'.format(time_cap)
                break
            if eng.violations and not os.environ.get('NVMC_EXPLORE_ALL'):
                # a counterexample for this scenario exists: report it instead of exploring on (a
                # defective tree can make every further transition arbitrarily slow)
                res['capped'] = 'stopped at first violation'
                break
            for act in (loops(st) if loops else ()):
                eng.apply(st, act)
            if st.terminal:
                acts = terminal_alphabet(st) if terminal_alphabet else ()
            else:
                acts = alphabet(st)
            for act in acts:
                if act[0] == 'resume' and st.resumes >= R:
                    continue
                if act[0] == 'resume' and scn['stale_file'] and st.n_like == 0:
                    # nothing of THIS computation has been written yet: the file at the path is still
                    # the earlier run's, and resuming it is (rightly) a different computation
                    continue
                if act[0] == 'toggle' and st.toggles >= T:
                    continue
                if act[0] == 'sched' and st.nsched >= S:
                    continue
                new, ctx = eng.apply(st, act)
                if new is None:
                    res['exceptions'] += 1
                    if ctx['exc'] and ctx['exc'][0] == 'Hang':
                        # already a reported violation; every further hang would cost a full
                        # watchdog period, so this exploration stops here (not exhaustive)
                        res['capped'] = 'hang after {}'.format(list(st.path) + [act])[:200]
                        frontier.clear()
                        break
                    continue
                if new.terminal:
                    s = ctx['post']
                    try:
                        d, summ = observation(s)
                    except Exception as e:
                        tb = traceback.extract_tb(e.__traceback__)
                        site = next(('{}:{}'.format(os.path.basename(fr.filename), fr.name)
                                     for fr in tb[::-1] if '/nautilus/' in fr.filename), '')
                        res['observation_errors'].append(dict(
                            path=[list(a) for a in new.path], type=type(e).__name__,
                            msg=str(e)[:300], site=site))
                        continue
                    cls = (repr(new.target), repr(new.thist))
                    res['terminals'].setdefault(cls, {}).setdefault(d, dict(
                        summary=summ, path=[list(a) for a in new.path], count=0))['count'] += 1
                if all(a == ('step',) for a in new.path) and len(res['default_keys']) == new.depth:
                    res['default_keys'].append(new.key)
                dev = (new.resumes, new.toggles, new.nsched)
                old = seen.get(new.key)
                if old is not None and any(all(o[i] <= dev[i] for i in range(3)) for o in old):
                    continue
                if old is None:
                    states += 1
                    seen[new.key] = [dev]
                else:
                    old.append(dev)
                if states > max_states:
                    res['capped'] = 'states {}'.format(max_states)
                    frontier.clear()
                    break
                frontier.append(new)
                if len(res['samples']) < 3 and new.depth >= 3 and (new.resumes or new.toggles or
                                                                    new.depth % 5 == 0):
                    res['samples'].append(dict(path=[list(a) for a in new.path],
                                               key=new.key[:24], n_like=int(ctx['post'].n_like)))
        res['states'] = states
        res['transitions'] = eng.transitions
        res['violations'] = eng.violations
        res['wall'] = time.time() - t0
        res['t_apply'] = eng.t_apply
    finally:
        eng.close()
    # stringify terminal classes for transport
    res['terminals'] = {repr(k): v for k, v in res['terminals'].items()}
    return res


def replay_path(scn, path, monitors=()):
    """re-execute one action path on a fresh sampler (used by --replay and by determinism checks);
    returns (engine results per step, violations)"""
    eng = Engine(scn, monitors)
    try:
        st = eng.initial()
        keys = [st.key]
        for act in path:
            new, ctx = eng.apply(st, tuple(act))
            if new is None:
                keys.append('EXC:' + repr(ctx['exc']))
                break
            keys.append(new.key)
            st = new
        return keys, eng.violations
    finally:
        eng.close()
