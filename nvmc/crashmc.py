"""Engine B: crash-point enumeration over the recorded write path (C06).

1. record   : the scenario runs once in a child under strace (all path- and fd-mutating syscalls)
2. model    : a small file-system model replays the log (inodes, directory entries, fd table,
              offsets, O_TRUNC/O_APPEND, unlink-while-open, rename-over, sendfile/copy_file_range)
3. enumerate: every position between two logged syscalls that touch the checkpoint directory (and
              page-torn variants of multi-page writes) is a crash point; the directory image is
              handed to the recovery oracle
4. conform  : real SIGKILL injected at selected pwrite64 ordinals; the file really left behind must
              equal the model's image before (or after) that syscall
"""
import hashlib
import json
import os
import re
import shutil
import subprocess
import sys

import numpy as np

from . import core, scen, VERIF
from .core import Inconclusive, Violation

TRACE = ('openat,open,creat,pwrite64,pwritev,pwritev2,write,writev,lseek,ftruncate,truncate,unlink,'
         'unlinkat,rename,renameat,renameat2,link,linkat,symlink,symlinkat,copy_file_range,sendfile,'
         'fallocate,mmap,close,dup,dup2,dup3,fsync,fdatasync,faccessat,faccessat2,access,mkdir,'
         'mkdirat,rmdir,splice,tee,msync')

PAGE = 4096


def _unhex(s):
    """strace -xx string literal body -> bytes"""
    if '\\x' not in s:
        return s.encode('latin-1')
    return bytes.fromhex(s.replace('\\x', ''))


def child_env():
    env = dict(os.environ)
    env['PYTHONPATH'] = VERIF + os.pathsep + env.get('PYTHONPATH', '')
    env['PYTHONHASHSEED'] = '0'
    return env


def record(scn, workdir):
    """run the scenario under strace; returns (log path, record dict)"""
    ckdir = os.path.join(workdir, 'ck')
    outdir = os.path.join(workdir, 'out')
    os.makedirs(ckdir)
    os.makedirs(outdir)
    log = os.path.join(workdir, 'strace.log')
    spec = json.dumps(dict(scenario=dict(scn), dir=ckdir, out_dir=outdir, record=True))
    cmd = ['strace', '-f', '--seccomp-bpf', '-y', '-xx', '-s', '400000000', '-o', log, '-e',
           'trace=' + TRACE, sys.executable, '-m', 'nvmc.crash_child', spec]
    p = subprocess.run(cmd, env=child_env(), cwd=VERIF, capture_output=True, text=True,
                       timeout=1800)
    if 'CHILD-DONE' not in p.stdout:
        raise Inconclusive('recording child failed: ' + (p.stderr or p.stdout)[-1500:])
    with open(os.path.join(outdir, 'record.json')) as f:
        rec = json.load(f)
    return log, ckdir, rec


# --------------------------------------------------------------------------------------------
# log parsing
# --------------------------------------------------------------------------------------------

LINE = re.compile(r'^(\d+)\s+(\w+)\((.*)\)\s+=\s+(-?\d+|\?)(.*)$', re.S)
FD = re.compile(r'^(-?\d+|AT_FDCWD)(?:<([^>]*)>)?$')


def split_args(s):
    """split a strace argument string at top-level commas (strings are hex so no commas inside;
    brackets [] {} <> nest)"""
    out = []
    depth = 0
    cur = []
    inq = False
    for ch in s:
        if ch == '"':
            inq = not inq
        if not inq:
            if ch in '[{<(':
                depth += 1
            elif ch in ']}>)':
                depth -= 1
            elif ch == ',' and depth == 0:
                out.append(''.join(cur).strip())
                cur = []
                continue
        cur.append(ch)
    if cur:
        out.append(''.join(cur).strip())
    return out


def parse_fd(a):
    m = FD.match(a)
    if not m:
        return None, None
    fd = -100 if m.group(1) == 'AT_FDCWD' else int(m.group(1))
    path = _unhex(m.group(2)).decode('latin-1') if m.group(2) is not None else None
    return fd, path


def parse_str(a):
    a = a.strip()
    if a.endswith('...'):
        raise Inconclusive('truncated string in strace log')
    if a.startswith('"') and a.endswith('"'):
        return _unhex(a[1:-1])
    if a == 'NULL':
        return None
    raise Inconclusive('cannot parse string argument ' + a[:60])


def parse_log(log, ckdir):
    """returns the list of events relevant for the checkpoint directory and the markers.
    event = dict(kind=..., ...); every pwrite64 of the traced process gets its global ordinal"""
    events = []
    n_pwrite = 0
    with open(log, 'r', errors='replace') as f:
        for line in f:
            line = line.rstrip('\n')
            if 'unfinished ...' in line or ' resumed>' in line:
                # only harmless for syscalls that never touch the checkpoint directory
                if ckdir.encode().hex() in line.replace('\\x', '') or 'pwrite' in line:
                    raise Inconclusive('interleaved syscall on the checkpoint: ' + line[:200])
                continue
            m = LINE.match(line)
            if not m:
                continue
            pid, name, args, ret, rest = m.groups()
            if name == 'pwrite64':
                n_pwrite += 1
            if ret == '?':
                continue
            ret_i = int(ret)
            ev = dict(pid=int(pid), name=name, ret=ret_i, ordinal=n_pwrite if name == 'pwrite64'
                      else None)
            a = split_args(args)
            try:
                if name in ('access', 'faccessat', 'faccessat2'):
                    p = parse_str(a[0] if name == 'access' else a[1])
                    p = p.decode('latin-1') if p else ''
                    if p.startswith('/nvmc-'):
                        ev.update(kind='marker', path=p)
                        events.append(ev)
                    continue
                if name in ('openat', 'open', 'creat'):
                    if name == 'openat':
                        path, flags = parse_str(a[1]), a[2]
                    elif name == 'open':
                        path, flags = parse_str(a[0]), a[1]
                    else:
                        path, flags = parse_str(a[0]), 'O_WRONLY|O_CREAT|O_TRUNC'
                    path = path.decode('latin-1')
                    if not os.path.isabs(path):
                        dfd, dpath = parse_fd(a[0]) if name == 'openat' else (None, None)
                        if dpath:
                            path = os.path.join(dpath, path)
                    ev.update(kind='open', path=os.path.normpath(path), flags=flags)
                elif name in ('pwrite64', 'write'):
                    fd, fpath = parse_fd(a[0])
                    ev.update(kind='write', fd=fd, fpath=fpath,
                              offset=int(a[3]) if name == 'pwrite64' else None, raw=a[1])
                elif name in ('pwritev', 'pwritev2', 'writev'):
                    fd, fpath = parse_fd(a[0])
                    ev.update(kind='unmodelled', fd=fd, fpath=fpath)
                elif name == 'close':
                    fd, fpath = parse_fd(a[0])
                    ev.update(kind='close', fd=fd, fpath=fpath)
                elif name == 'lseek':
                    fd, fpath = parse_fd(a[0])
                    ev.update(kind='lseek', fd=fd, fpath=fpath)
                elif name == 'ftruncate':
                    fd, fpath = parse_fd(a[0])
                    ev.update(kind='ftruncate', fd=fd, fpath=fpath, length=int(a[1]))
                elif name == 'truncate':
                    ev.update(kind='truncate', path=parse_str(a[0]).decode('latin-1'),
                              length=int(a[1]))
                elif name in ('unlink', 'rmdir'):
                    ev.update(kind='unlink', path=parse_str(a[0]).decode('latin-1'))
                elif name == 'unlinkat':
                    ev.update(kind='unlink', path=parse_str(a[1]).decode('latin-1'))
                elif name == 'rename':
                    ev.update(kind='rename', src=parse_str(a[0]).decode('latin-1'),
                              dst=parse_str(a[1]).decode('latin-1'))
                elif name in ('renameat', 'renameat2'):
                    ev.update(kind='rename', src=parse_str(a[1]).decode('latin-1'),
                              dst=parse_str(a[3]).decode('latin-1'))
                elif name in ('link', 'linkat', 'symlink', 'symlinkat'):
                    ev.update(kind='link', raw=args[:200])
                elif name == 'sendfile':
                    ofd, opath = parse_fd(a[0])
                    ifd, ipath = parse_fd(a[1])
                    off = None
                    mm = re.match(r'\[(\d+)\]', a[2])
                    if mm:
                        off = int(mm.group(1))
                    ev.update(kind='sendfile', fd=ofd, fpath=opath, in_fd=ifd, in_path=ipath,
                              in_off=off)
                elif name == 'copy_file_range':
                    ifd, ipath = parse_fd(a[0])
                    ofd, opath = parse_fd(a[2])
                    mi = re.match(r'\[(\d+)\]', a[1])
                    mo = re.match(r'\[(\d+)\]', a[3])
                    ev.update(kind='sendfile', fd=ofd, fpath=opath, in_fd=ifd, in_path=ipath,
                              in_off=int(mi.group(1)) if mi else None,
                              out_off=int(mo.group(1)) if mo else None)
                elif name == 'mmap':
                    fd, fpath = parse_fd(a[4]) if len(a) > 4 else (None, None)
                    ev.update(kind='mmap', fd=fd, fpath=fpath, prot=a[2], flags=a[3])
                elif name in ('fallocate', 'splice', 'tee', 'msync'):
                    ev.update(kind='unmodelled', raw=args[:200], fpath=args[:400])
                elif name in ('dup', 'dup2', 'dup3'):
                    fd, fpath = parse_fd(a[0])
                    ev.update(kind='dup', fd=fd, fpath=fpath, newfd=ret_i)
                else:
                    continue
            except (IndexError, ValueError) as e:
                raise Inconclusive('cannot parse strace line: {} ({})'.format(line[:200], e))
            # relevance: anything naming the checkpoint directory
            txt = ' '.join(str(ev.get(k)) for k in ('path', 'fpath', 'src', 'dst', 'in_path'))
            if ckdir in txt:
                events.append(ev)
    return events, n_pwrite


# --------------------------------------------------------------------------------------------
# file-system model
# --------------------------------------------------------------------------------------------

class FsModel:
    """directory entries of the checkpoint directory, inodes, per-pid fd table"""

    def __init__(self, ckdir):
        self.ckdir = ckdir
        self.names = {}         # name -> inode id
        self.inodes = {}        # inode id -> bytearray
        self.fds = {}           # (pid, fd) -> [inode, offset, append]
        self.next = 1

    def rel(self, path):
        path = os.path.normpath(path)
        if os.path.dirname(path) != self.ckdir:
            return None
        return os.path.basename(path)

    def image(self):
        return {n: bytes(self.inodes[i]) for n, i in self.names.items()}

    def apply(self, ev, torn=None):
        """apply one event; torn = number of bytes of a write that reach the file"""
        k = ev['kind']
        if ev['ret'] < 0 and k != 'marker':
            return
        pid = ev['pid']
        if k == 'open':
            name = self.rel(ev['path'])
            if name is None:
                return
            flags = ev['flags']
            if name not in self.names:
                if 'O_CREAT' not in flags:
                    raise Inconclusive('open of unknown file without O_CREAT: ' + ev['path'])
                self.names[name] = self.next
                self.inodes[self.next] = bytearray()
                self.next += 1
            ino = self.names[name]
            if 'O_TRUNC' in flags:
                del self.inodes[ino][:]
            self.fds[(pid, ev['ret'])] = [ino, 0, 'O_APPEND' in flags]
        elif k == 'write':
            ent = self.fds.get((pid, ev['fd']))
            if ent is None:
                if ev['fpath'] and self.rel(ev['fpath']) is not None:
                    raise Inconclusive('write through an untracked descriptor: ' + ev['fpath'])
                return
            data = parse_str(ev['raw'])
            data = data[:ev['ret']]
            if torn is not None:
                data = data[:torn]
            buf = self.inodes[ent[0]]
            if ev['offset'] is not None:
                off = ev['offset']
            else:
                off = len(buf) if ent[2] else ent[1]
                ent[1] = off + len(data)
            if len(buf) < off:
                buf.extend(b'\0' * (off - len(buf)))
            buf[off:off + len(data)] = data
        elif k == 'sendfile':
            ent = self.fds.get((pid, ev['fd']))
            src = self.fds.get((pid, ev['in_fd']))
            if ent is None:
                return
            if src is None:
                raise Inconclusive('sendfile into the checkpoint directory from an untracked file')
            n = ev['ret']
            ioff = ev['in_off'] if ev['in_off'] is not None else src[1]
            data = bytes(self.inodes[src[0]][ioff:ioff + n])
            if ev['in_off'] is None:
                src[1] += n
            if torn is not None:
                data = data[:torn]
            buf = self.inodes[ent[0]]
            off = ev.get('out_off')
            if off is None:
                off = len(buf) if ent[2] else ent[1]
                ent[1] = off + len(data)
            if len(buf) < off:
                buf.extend(b'\0' * (off - len(buf)))
            buf[off:off + len(data)] = data
        elif k == 'close':
            self.fds.pop((pid, ev['fd']), None)
        elif k == 'dup':
            ent = self.fds.get((pid, ev['fd']))
            if ent is not None:
                self.fds[(pid, ev['newfd'])] = ent
        elif k == 'lseek':
            ent = self.fds.get((pid, ev['fd']))
            if ent is not None:
                ent[1] = ev['ret']
        elif k == 'ftruncate':
            ent = self.fds.get((pid, ev['fd']))
            if ent is not None:
                buf = self.inodes[ent[0]]
                if len(buf) > ev['length']:
                    del buf[ev['length']:]
                else:
                    buf.extend(b'\0' * (ev['length'] - len(buf)))
        elif k == 'truncate':
            name = self.rel(ev['path'])
            if name in self.names:
                buf = self.inodes[self.names[name]]
                del buf[ev['length']:]
                buf.extend(b'\0' * (ev['length'] - len(buf)))
        elif k == 'unlink':
            name = self.rel(ev['path'])
            if name in self.names:
                del self.names[name]
        elif k == 'rename':
            s, d = self.rel(ev['src']), self.rel(ev['dst'])
            if s in self.names and d is not None:
                self.names[d] = self.names.pop(s)
            elif s in self.names or d is not None:
                raise Inconclusive('rename across the checkpoint directory boundary')
        elif k == 'mmap':
            if (pid, ev['fd']) in self.fds and 'PROT_WRITE' in ev['prot'] and 'MAP_SHARED' in \
                    ev['flags']:
                raise Inconclusive('shared writable mmap of a checkpoint file is not modelled')
        elif k in ('unmodelled', 'link'):
            if self.ckdir in str(ev.get('fpath', '')) + str(ev.get('raw', '')):
                raise Inconclusive('unmodelled syscall {} on the checkpoint directory'.format(
                    ev['name']))
        elif k == 'marker':
            pass


def is_mutation(ev):
    return ev['kind'] in ('open', 'write', 'sendfile', 'ftruncate', 'truncate', 'unlink', 'rename',
                          'close') and ev['ret'] >= 0


# --------------------------------------------------------------------------------------------
# operations, crash points
# --------------------------------------------------------------------------------------------

def annotate(events):
    """assign to every event the checkpoint operation in progress (index, kind) or None, and find
    which operations are the last one of a loop iteration"""
    op = None
    done = -1
    ops = []            # (index, kind, first event, last event)
    iter_marks = []     # positions (event index) of add_bound/add_samples starts
    for i, ev in enumerate(events):
        if ev['kind'] == 'marker':
            p = ev['path'].split('/')
            if p[1] == 'nvmc-begin':
                op = (int(p[2]), p[3])
                ops.append([op[0], op[1], i, None])
            elif p[1] == 'nvmc-mark':
                ops[-1][3] = i
                done = int(p[2])
                op = None
            elif p[1] == 'nvmc-iter':
                iter_marks.append(i)
        ev['op'] = op
        ev['done'] = done
    final = set()
    for j, o in enumerate(ops):
        end = o[3]
        nxt = ops[j + 1][2] if j + 1 < len(ops) else None
        if end is None:
            continue
        if nxt is None or any(end < m < nxt for m in iter_marks):
            final.add(o[0])
    return ops, final


def image_hash(img):
    h = hashlib.sha1()
    for n in sorted(img):
        h.update(n.encode() + b'\0' + hashlib.sha1(img[n]).digest())
    return h.hexdigest()


# --------------------------------------------------------------------------------------------
# recovery oracle
# --------------------------------------------------------------------------------------------

def materialise(img, d):
    for f in os.listdir(d):
        os.unlink(os.path.join(d, f))
    for n, b in img.items():
        with open(os.path.join(d, n), 'wb') as f:
            f.write(b)


def try_resume(scn, img, d, steps=1, monitors=True):
    """re-run of the same script on the whole directory image: Sampler(resume=True) + one more
    run() slice; returns None or (problem, message)"""
    from . import monitors as M
    materialise(img, d)
    path = os.path.join(d, 'ck' + scn['ext'])
    try:
        with np.errstate(all='ignore'):
            s = scn.build(filepath=path, resume=True)
            if monitors:
                vs = M.check_partition(s) + M.check_estimators(s)
                if vs:
                    return ('invalid-state', vs[0]['signature'] + ': ' + vs[0]['explanation'])
            for _ in range(steps):
                s.run(**scn.run_args(), n_like_max=s.n_like + 1)
            if monitors:
                vs = M.check_partition(s) + M.check_estimators(s)
                if vs:
                    return ('invalid-continuation', vs[0]['signature'] + ': ' +
                            vs[0]['explanation'])
    except Exception as e:
        return ('resume-fails:' + type(e).__name__, '{}: {}'.format(type(e).__name__, str(e)[:300]))
    return None
