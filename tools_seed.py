#!/usr/bin/env python3
"""Run checks against a seeded property-breaking change WITHOUT touching /repo:

    python3 tools_seed.py seeded/<id> C05 [C12 ...] [--tier quick|thorough] [--suite]

makes a scratch worktree of /repo's HEAD under /tmp, applies seeded/<id>/patch.diff, runs the named
checks with NVMC_REPO pointing at it (evidence and replays of these runs go to a scratch directory, not
to /verif), optionally runs the demonstration and the repository's test-suite, prints a summary and
removes the worktree."""
import json, os, shutil, subprocess, sys, tempfile, time

def main():
    args = [a for a in sys.argv[1:] if not a.startswith('--')]
    tier = 'quick'
    if '--tier' in sys.argv:
        tier = sys.argv[sys.argv.index('--tier') + 1]
        args = [a for a in args if a != tier]
    seed_dir = os.path.abspath(args[0])
    checks = args[1:]
    wt = tempfile.mkdtemp(prefix='nvmc-seedwt-', dir='/tmp')
    out = tempfile.mkdtemp(prefix='nvmc-seedout-', dir='/tmp')
    os.rmdir(wt)
    res = {}
    try:
        subprocess.run(['git', '-C', '/repo', 'worktree', 'add', '-q', '--detach', wt, 'HEAD'], check=True)
        subprocess.run(['git', '-C', wt, 'apply', os.path.join(seed_dir, 'patch.diff')], check=True)
        env = dict(os.environ, NVMC_REPO=wt, NVMC_OUT=out)
        if '--demo' in sys.argv:
            demo = [f for f in os.listdir(seed_dir) if f.startswith('demo')][0]
            os.makedirs(os.path.join(wt, '_seed'), exist_ok=True)
            shutil.copy(os.path.join(seed_dir, demo), os.path.join(wt, '_seed', demo))
            cmd = ['/venv/bin/python', os.path.join('_seed', demo)]
            p = subprocess.run(cmd, cwd=wt, capture_output=True, text=True, env=dict(os.environ, PYTHONPATH=wt))
            res['demo_with_change'] = p.returncode
            print('demo with change: exit', p.returncode, (p.stdout + p.stderr)[-300:].replace('\n', ' | '))
            subprocess.run(['git', '-C', wt, 'apply', '-R', os.path.join(seed_dir, 'patch.diff')], check=True)
            p = subprocess.run(cmd, cwd=wt, capture_output=True, text=True, env=dict(os.environ, PYTHONPATH=wt))
            res['demo_without_change'] = p.returncode
            print('demo without change: exit', p.returncode, (p.stdout + p.stderr)[-200:].replace('\n', ' | '))
            subprocess.run(['git', '-C', wt, 'apply', os.path.join(seed_dir, 'patch.diff')], check=True)
        if '--suite' in sys.argv:
            t = time.time()
            p = subprocess.run(['/venv/bin/python', '-m', 'pytest', '-q', '-rf', '-p', 'no:cacheprovider', '--timeout=900'], cwd=wt, capture_output=True, text=True)
            tail = [l for l in p.stdout.splitlines() if 'passed' in l or 'failed' in l or l.startswith('FAILED')][-4:]
            res['suite'] = tail
            print('suite:', tail, '%.0fs' % (time.time() - t))
        for c in checks:
            t = time.time()
            p = subprocess.run(['/venv/bin/python', '-m', 'nvmc.check', c, '--tier', tier], cwd='/verif', env=env, capture_output=True, text=True)
            lines = [l for l in p.stdout.splitlines() if l.startswith(('VIOLATION', '  signature', 'KNOWN', 'INCONCLUSIVE', 'property='))]
            res[c] = dict(exit=p.returncode, lines=lines[:12])
            print('== {} exit={} ({:.0f}s)'.format(c, p.returncode, time.time() - t))
            for l in lines[:12]:
                print('   ', l[:220])
            if p.returncode == 2:
                print(p.stdout[-1500:], p.stderr[-1500:])
    finally:
        subprocess.run(['git', '-C', '/repo', 'worktree', 'remove', '--force', wt])
        shutil.rmtree(out, ignore_errors=True)
    print(json.dumps(res))

if __name__ == '__main__':
    main()
