#!/usr/bin/env python3
"""prints the markdown table 'which checks catch which changes' from seeded/*/meta.json and mutants/results.json"""
import json, os
here = os.path.dirname(os.path.abspath(__file__))
rows = []
for d in sorted(os.listdir(os.path.join(here, 'seeded'))):
    p = os.path.join(here, 'seeded', d, 'meta.json')
    if not os.path.exists(p):
        continue
    m = json.load(open(p))
    caught = '; '.join('**{}**: {}'.format(k, v) for k, v in m.get('caught_by', {}).items()) or '—'
    rows.append('| `seeded/{}` | {} | {} | {} | {} |'.format(d, m['property'], m['summary'], m['needs'], caught))
print('| change | property | what it is | needs to manifest | caught by (signature) |')
print('|---|---|---|---|---|')
print('\n'.join(rows))
p = os.path.join(here, 'mutants', 'results.json')
if os.path.exists(p):
    print()
    print('| hand-made change (`mutants/`) | caught by |')
    print('|---|---|')
    for k, v in sorted(json.load(open(p)).items()):
        print('| `{}` — {} | {} |'.format(k, v['what'], v['caught']))
