#!/usr/bin/env python3
"""detection matrix: every seeded change (and hand-made mutant) against the quick tier of the checks its
meta.json names; writes seeded/matrix.json.   usage: python3 tools_matrix.py [--out file] [ids...]"""
import json, os, subprocess, sys, time
here = os.path.dirname(os.path.abspath(__file__))
out_override = None
if '--out' in sys.argv:
    k = sys.argv.index('--out')
    out_override = sys.argv[k + 1]
    del sys.argv[k:k + 2]
ids = sys.argv[1:] or sorted(d for d in os.listdir(os.path.join(here, 'seeded')) if os.path.isdir(os.path.join(here, 'seeded', d)))
out_path = out_override or os.path.join(here, 'seeded', 'matrix.json')
res = json.load(open(out_path)) if os.path.exists(out_path) else {}
for i in ids:
    meta = json.load(open(os.path.join(here, 'seeded', i, 'meta.json')))
    checks = sorted(meta.get('caught_by', {}))
    t = time.time()
    p = subprocess.run(['python3', os.path.join(here, 'tools_seed.py'), os.path.join('seeded', i)] + checks, cwd=here, capture_output=True, text=True)
    last = [l for l in p.stdout.splitlines() if l.startswith('{')][-1:]
    r = json.loads(last[0]) if last else {}
    res[i] = {c: dict(exit=r.get(c, {}).get('exit'), signatures=[l.strip()[11:] for l in r.get(c, {}).get('lines', []) if 'signature' in l]) for c in checks}
    res[i]['seconds'] = round(time.time() - t)
    print(i, {c: res[i][c]['exit'] for c in checks}, res[i]['seconds'], 's', flush=True)
    json.dump(res, open(out_path, 'w'), indent=1)
