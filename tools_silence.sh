#!/bin/bash
# silence run: every quick check for each given VERIF_SEED on the unchanged tree; evidence/replays of these
# runs go to a scratch directory (NVMC_OUT) so that /verif/evidence keeps the registered run.
#   usage: tools_silence.sh 1 2 7 12345
out=$(mktemp -d /tmp/nvmc-silence-XXXX)
for seed in "$@"; do
  for c in C01 C02 C03 C05 C06 C07 C08 C09 C10 C11 C12 C13 C14 C15 C16; do
    s=$(date +%s)
    VERIF_SEED=$seed NVMC_OUT=$out /venv/bin/python -m nvmc.check $c --tier quick > $out/$c.$seed.log 2>&1
    rc=$?
    echo "seed=$seed $c exit=$rc $(( $(date +%s) - s ))s $(grep -E 'VIOLATION|INCONCLUSIVE|signature' $out/$c.$seed.log | head -3 | tr '\n' ' ')"
  done
done
rm -rf $out
