#!/usr/bin/env python3
"""Regenerates /verif/MANIFEST.json from the table below (run with any python3)."""
import json, os
HERE = os.path.dirname(os.path.abspath(__file__))
PY = '/venv/bin/python'

CHECKS = {
 'C01': dict(engine='smc', level='model_checking', tech='explicit-state model checking of the real Sampler: BFS over run-slice/resume histories with state de-duplication; partition invariant on every transition',
   text='Every history of one-batch run() slices and resume-from-file actions (resume budget 1 quick / 2 thorough) of each scenario is enumerated to termination on the real Sampler; the partition invariant (stored point in cube, in own bound, in no later bound, shell_association agrees, transfer candidates consistent) is evaluated after every transition, i.e. at every batch boundary and after every bound insertion on native and resumed samplers. Exhaustive within the scenario list and budgets, not over all likelihoods/seeds.',
   note='Trusts the implementation\'s own contains() as the membership predicate (C07/C09 guard its meaning), the finite scenario/seed alphabet, FakePool as model of a process pool, and that state held only in module globals does not exist (checked by two fresh-process replays of the default path).', ref='3/C01'),
}
NOT_YET = {}
NA = {
 'C04': 'Statement about the expectation and spread over the continuous random source of complete runs (ensembles of seeds); a bounded exhaustive enumeration cannot evaluate it and an ensemble would be sampling, a different technique family. Its deterministic ingredients are decided by C01, C02, C05, C08, C12.',
}

def main():
    props = [json.loads(l)['id'] for l in open(os.path.join(HERE, 'properties.jsonl'))]
    checks = []
    for pid in props:
        if pid not in CHECKS:
            continue
        c = CHECKS[pid]
        checks.append(dict(
            property_id=pid,
            quick_cmd='{} -m nvmc.check {} --tier quick'.format(PY, pid),
            thorough_cmd='{} -m nvmc.check {} --tier thorough'.format(PY, pid),
            evidence_file='/verif/evidence/{}.json'.format(pid),
            replay_cmd_template='{} -m nvmc.check {} --replay {{path}}'.format(PY, pid),
            engine=c['engine'],
            level_claimed=dict(category=c['level'], text=c['text'], design_ref=c['ref']),
            level_note=c['note'], technique=c['tech']))
    na = [dict(property_id=k, reason=v) for k, v in NA.items()]
    for pid in props:
        if pid not in CHECKS and pid not in NA:
            na.append(dict(property_id=pid, reason=NOT_YET.get(pid, 'check not built yet in this revision of /verif (planned, see DESIGN.md section 3); not claimed until its check exists and is silent on the unchanged tree')))
    man = dict(
        version=1,
        setup_cmd='/venv/bin/python -c "import nautilus, h5py, numpy, scipy, sklearn; print(\'ok\')"',
        hooks=dict(guard='NAUTILUS_VERIF', enable='no source hooks: all instrumentation is attribute replacement from outside (sampler.rng, nautilus.sampler.time, pool=, class-level wrappers installed by the harness at run time) and syscall tracing; checks import /repo\'s working tree directly (editable install)',
                   baseline_off_cmd='cd /repo && /venv/bin/python -m pytest -ra -q -p no:cacheprovider --timeout=900 --continue-on-collection-errors',
                   source_commits=[], add_only=True),
        engines=[
            dict(name='smc', path='nvmc/smc.py', serves_properties=['C01','C02','C03','C05','C10','C11','C12','C14'], kind_free_text='explicit-state BFS over public-API actions on pickled real Sampler states with structural state hashing'),
            dict(name='crashmc', path='nvmc/crashmc.py', serves_properties=['C06'], kind_free_text='strace-recorded write path replayed into a file-system model; every syscall boundary and page-torn write enumerated as a crash point; real SIGKILL conformance'),
            dict(name='boundmc', path='nvmc/boundmc.py', serves_properties=['C07','C09','C13'], kind_free_text='operation-history BFS on real bound objects with scripted GMM seeds'),
            dict(name='envmc', path='nvmc/envmc.py', serves_properties=['C08','C14','C16'], kind_free_text='exhaustive enumeration of scripted random-generator answers driving the real sampling code'),
            dict(name='enum', path='nvmc/progs.py', serves_properties=['C15','C16'], kind_free_text='bounded-exhaustive declaration programs / float neighbourhoods against a reference interpreter'),
        ],
        checks=checks,
        not_applicable=na,
        notes='See /verif/DESIGN.md. Known findings: /verif/known_findings.json. Seeded mutants: /verif/seeded/.')
    with open(os.path.join(HERE, 'MANIFEST.json'), 'w') as f:
        json.dump(man, f, indent=1)
    print('wrote MANIFEST.json with', len(checks), 'checks;', len(na), 'not applicable')

if __name__ == '__main__':
    main()
