#!/usr/bin/env python3
"""Regenerates /verif/MANIFEST.json from the table below (run with any python3)."""
import json, os
HERE = os.path.dirname(os.path.abspath(__file__))
PY = '/venv/bin/python'

A_NOTE = ('Trusts: the finite scenario/seed alphabet (exhaustive within each scenario and deviation budget, not over all likelihoods and seeds); FakePool as model of a process pool (cross-checked against real multiprocessing pools in C11); that no state lives only in module globals (two fresh-process replays of the default path of every scenario with different PYTHONHASHSEED/legacy seed/COLUMNS must give identical per-depth state digests, else exit 2).')
CHECKS = {
 'C01': dict(engine='smc', level='model_checking', ref='3/C01',
   tech='explicit-state model checking of the real Sampler: BFS over run-slice/resume histories with structural state hashing; partition invariant evaluated on every transition',
   text='Every history of one-batch run() slices and resume-from-file actions (resume budget 1 quick / 2 thorough) of each scenario is enumerated to termination on the real Sampler with state de-duplication; the partition invariant (stored point in cube, in own bound, in no later bound, shell_association agrees, pending/transferred transfer candidates consistent) is evaluated after every transition, i.e. at every batch boundary and after every bound insertion, on native and resumed samplers; a second variant runs each scenario to completion and then on with n_shell=200 (sampling from early shells) and resumes; additionally every COMPLETED checkpoint of an uninterrupted run (incl. the mid-step ones written right after a bound insertion) is resumed and checked.',
   note='Trusts the implementation\'s own contains() as the membership predicate (C07/C09 guard its meaning). ' + A_NOTE),
 'C02': dict(engine='smc', level='model_checking', ref='3/C02',
   tech='explicit-state model checking of the real Sampler (slice/resume/toggle histories); estimators recomputed from raw arrays plus an independent proposal tally on every transition',
   text='All histories over {one-batch slice, resume, discard toggle} within the budgets are enumerated; after every transition log_z, n_eff, eta, per-shell statistics and posterior() weights are recomputed from points/log_l/bounds[i].log_v only and compared at rtol 1e-9; proposal counts are checked against an independent tally taken by wrapping the bounds\' sample() methods; scenarios include one whose seed is chosen so that an empty shell is removed at the end of exploration, all-rejected bounds, split outer bounds; every completed checkpoint is resumed and checked too.',
   note='Oracle sums in a different order than the implementation (rtol 1e-9); states with only -inf likelihoods skipped. ' + A_NOTE),
 'C03': dict(engine='smc', level='model_checking', ref='3/C03',
   tech='explicit-state model checking of the real Sampler over evaluation modes x blob kinds x batch sizes; every posterior row re-evaluated with the pure likelihood',
   text='Histories over {slice, resume, toggle} for scenarios covering scalar/vectorised, array/dict (Prior object and function), in-place-mutating prior, likelihood pool, n_batch 1/2/7/15/20 and seven blob kinds; at every state every posterior row is re-evaluated with the pure likelihood (log L and blob bit-identical), rows are distinct and equal the stored points as a multiset.',
   note='Likelihood alphabet uses only exactly rounded arithmetic so scalar and vectorised evaluation agree bit for bit. ' + A_NOTE),
 'C05': dict(engine='smc', level='model_checking', ref='3/C05',
   tech='explicit-state model checking: every batch boundary as stop point x {continue in memory, resume from file} x slicings by n_like_max and virtual timeouts; terminal-result agreement and no-point-twice',
   text='Every batch boundary of each scenario is a stop point with both continuations; every sequence of stops with up to 1 (quick) / 2 (thorough) resumes and arbitrarily many in-memory stops is enumerated, with coarser slicings (two-batch slices, timeout-limited slices on a virtual clock, finish) from the visited states; all terminal states of a scenario must show one bit-identical observation (posterior incl. blobs, log_z, n_eff, n_like) and no point may be evaluated twice on any path; on a 536-batch run EVERY batch boundary is resumed and followed for one batch (linear sweep).',
   note='Mid-step checkpoints that only a kill can expose are C06\'s. ' + A_NOTE),
 'C06': dict(engine='crashmc', level='fault_enumeration', ref='3/C06',
   tech='exhaustive crash-point enumeration: strace-recorded syscall history of the real write path replayed into a file-system model, every syscall boundary (thorough: every page-torn write) checked by a recovery oracle; model validated by real SIGKILL injection',
   text='For complete recorded runs, every position after a syscall that mutates the checkpoint directory is taken as a crash point; the directory image must hold exactly the last completed or the in-progress checkpoint state (logical HDF5 digest), never be missing after the first checkpoint, and Sampler(resume=True)+one run slice on the whole image (left-over temporaries included) must succeed. Every completed checkpoint is resumed, checked with the C01/C02 state monitors and run to completion.',
   note='A kill preserves completed syscalls (no power-loss model); single writer process; the file-system model is validated per run (final image byte-identical; real kills at chosen pwrite64 ordinals leave exactly the model image).'),
 'C07': dict(engine='boundmc', level='model_checking', ref='3/C07',
   tech='exhaustive finite product of bound class x dimension x point family x enlargement x unit x pool, with BFS over split/trim histories of unions (scripted GMM seeds); soundness oracle in every visited state',
   text='All bound classes are built through compute() over a finite product of dimensions 1-8, nine point-set families, four enlargements, unit/non-unit, pools; unions are explored over all split/trim sequences to the depth cap; in every state samples must be contained and inside the cube, construction points enclosed, neural/nautilus bounds inside their outer bound.',
   note='Enlargement >= 1+1e-6, non-degenerate point sets; sampled points come from seeded PCG64 streams.'),
 'C08': dict(engine='envmc', level='exploration', ref='3/C08',
   tech='exhaustive enumeration of scripted random-generator answers: every lattice probe x proposing member x all acceptance thresholds driven through the real Union.sample pipeline',
   text='Decides uniformity exactly instead of statistically: each probe is proposed from every member containing it and must be kept in exactly M/m of M equally spaced thresholds; multinomial weights equal member volumes; counters count proposed and rejected; closed-form volumes match det A; pool merging equals the workers\' reports; also after HDF5 round trips (incl. a 12-member union) and after trim().',
   note='Probes within 1e-6 of a surface dropped; uniformity of numpy\'s own normal/uniform streams trusted.'),
 'C09': dict(engine='boundmc', level='model_checking', ref='3/C09',
   tech='every bound state of the C07 state enumeration written to an in-memory HDF5 group and read back (behavioural equality under a cloned generator) plus an exhaustive operation-history search over {sample(1), sample(137), sample(1500), update, reset} on the incremental-update path',
   text='contains() on lattice + construction + stream points, log_v, and three sample() streams (1/100/2500 points) must be bit-identical between a bound and its read-back for every class, unit T/F, periodic, 0-2 networks with non-default hyper-parameters, fresh/split/trimmed/partly sampled; after every update in every operation sequence up to depth 3 (quick) / 4 (thorough) from a fresh and a partly sampled bound, the group read back must equal a full write of the live bound.',
   note='split() after a read is outside the statement.'),
 'C10': dict(engine='smc', level='model_checking', ref='3/C10',
   tech='explicit-state model checking with an instrumented pure likelihood/prior: call log vs counter, batch grouping, support, budget, virtual timeouts and return-value predicate on every transition',
   text='Histories over slices, two-batch slices, timeout-limited slices (virtual clock), caps at/below the current count, resume, finish and raised targets; on every transition the counter equals logged calls, batches have exactly n_batch points inside [0,1)^d, no batch starts at or over the limit, a limit that is already reached changes nothing, and run() returns True exactly when the independently recomputed success predicate holds.',
   note='Return value not judged when recomputed n_eff is within 1e-9 of the target. ' + A_NOTE),
 'C11': dict(engine='smc', level='model_checking', ref='3/C11',
   tech='explicit-state model checking: accessor self-loops at every reachable state, all bounded deviations of pool completion order, lock-step product runs of configurations that must be indistinguishable',
   text='(a) the full set of read-only accessors is a self-loop on the state digest at every reachable state; (b) scalar vs vectorised, verbose, file vs no file, likelihood pool None/2/3/4 pairs agree at every depth; (c) every batch with a deviating completion order (bounded deviations) reaches the same states; (d) real multiprocessing pools give the serial result; (e) two fresh processes with the same seed (different hash seed, legacy numpy seed, terminal width) and the explorer reach identical states at every depth - a divergence is reported as a violation here.',
   note='"unweighted posterior" = posterior() with defaults. ' + A_NOTE),
 'C12': dict(engine='smc', level='model_checking', ref='3/C12',
   tech='explicit-state model checking with toggles of discard_exploration at batch boundaries x resumes; freeze/append-only transition relation, view exactness via a history variable, toggle involution, three-ways product run',
   text='Histories over {slice, resume, toggle} with up to 2 (quick) / 3 (thorough) toggles; after exploration bounds are structurally frozen, shells non-empty, arrays append-only; with discard on the view is exactly the points evaluated after exploration ended (tracked as a history variable); toggle;toggle is the identity; after every toggle the statistics of the new view (on or off) equal the ones recomputed from points/log_l/bounds; scenarios include ones whose seed is chosen so that one / two empty shells are removed at the end of exploration; discard requested via run(), setter, or setter after resume agree at every later batch.',
   note='A toggle after the last checkpoint is not persisted (resume is compared with the last checkpoint). ' + A_NOTE),
 'C13': dict(engine='boundmc', level='model_checking', ref='3/C13',
   tech='BFS over all split/trim sequences of real Union objects with scripted GMM seeds and structural state hashing, to closure where the graph closes; reference model of per-ellipsoid records',
   text='All operation sequences over {split with/without overlap x GMM seed, trim(1e3), trim(1e-9)} with sample/log_v/reset as self-loops, on 8 (quick) / 13 (thorough) point sets; record alignment, child sizes, point conservation, volume monotonicity, refused-operation purity, cache reset, no exception.',
   note='GMM seed scripted from a 2-3 value alphabet.'),
 'C14': dict(engine='envmc', level='exploration', ref='3/C14',
   tech='exhaustive enumeration of the stochastic-rounding threshold (64 scripted answers of sampler.rng.random) x boosts over weight vectors of real sampler states',
   text='For weight vectors of real sampler states, live and resumed from the checkpoint (incl. -inf samples, both discard views, blobs) and boosts {0.3,1,2.5,10}: multiplicity in {floor r, floor r + 1} in every execution, exact expectation on the threshold lattice, no repeats for boost<=1, order/likelihood/blob preservation, equal normalised weights, weighted posterior unchanged.',
   note='Rows with r within 1e-9 of an integer excluded from the multiplicity clause.'),
 'C15': dict(engine='enum', level='exploration', ref='3/C15',
   tech='bounded-exhaustive enumeration of all declaration programs up to length 4/5 (incl. every malformed declaration at every position) against a reference interpreter',
   text='All programs over named/auto keys x {uniform, scipy norm, fixed number, link to each earlier key}; dimensionality, inverse CDF in declaration order, monotonicity, shapes, dictionary completeness; every malformed declaration must raise ValueError/TypeError and leave the prior unchanged; every program is run twice: declared completely before use, and with dimensionality()/transforms read after every declaration.',
   note='Distributions limited to uniform and scipy.stats.norm; ppf compared at rtol 1e-9.'),
 'C16': dict(engine='enum', level='exploration', ref='3/C16',
   tech='exhaustive enumeration of float neighbourhoods (+-8/64 ulps) of all critical values x centres x periodic subsets, plus an end-to-end scripted-generator witness',
   text='Range [0,1), untouched non-periodic coordinates, round trip within 4 ulp on the circle, largest gap across the boundary for all multisets of size <=4/6 on a grid and for all ordered periodic index sets of d=3; witnesses through NautilusBound.sample (scripted proposals at the wrap position; serial and pool sampling).',
   note='d = 2, 3.'),
}
NOT_YET = {}
NA = {
 'C04': 'Statement about the expectation and spread over the continuous random source of complete runs (ensembles of seeds); a bounded exhaustive enumeration cannot evaluate it and an ensemble would be sampling, a different technique family. Its deterministic ingredients are decided by C01, C02, C05, C08, C12.',
}

def main():
    props = [json.loads(l)['id'] for l in open(os.path.join(HERE, 'properties.jsonl'))]
    checks = []
    for pid in props:
        if pid not in CHECKS:
            continue
        c = CHECKS[pid]
        checks.append(dict(
            property_id=pid,
            quick_cmd='{} -m nvmc.check {} --tier quick'.format(PY, pid),
            thorough_cmd='{} -m nvmc.check {} --tier thorough'.format(PY, pid),
            evidence_file='/verif/evidence/{}.json'.format(pid),
            replay_cmd_template='{} -m nvmc.check {} --replay {{path}}'.format(PY, pid),
            engine=c['engine'],
            level_claimed=dict(category=c['level'], text=c['text'], design_ref=c['ref']),
            level_note=c['note'], technique=c['tech']))
    na = [dict(property_id=k, reason=v) for k, v in NA.items()]
    for pid in props:
        if pid not in CHECKS and pid not in NA:
            na.append(dict(property_id=pid, reason=NOT_YET.get(pid, 'check not built yet in this revision of /verif (planned, see DESIGN.md section 3); not claimed until its check exists and is silent on the unchanged tree')))
    man = dict(
        version=1,
        setup_cmd='/venv/bin/python -c "import nautilus, h5py, numpy, scipy, sklearn; print(\'ok\')"',
        hooks=dict(guard='NAUTILUS_VERIF', enable='no source hooks: all instrumentation is attribute replacement from outside (sampler.rng, nautilus.sampler.time, pool=, class-level wrappers installed by the harness at run time) and syscall tracing; checks import /repo\'s working tree directly (editable install)',
                   baseline_off_cmd='cd /repo && /venv/bin/python -m pytest -ra -q -p no:cacheprovider --timeout=900 --continue-on-collection-errors',
                   source_commits=[], add_only=True),
        engines=[
            dict(name='smc', path='nvmc/smc.py', serves_properties=['C01','C02','C03','C05','C10','C11','C12','C14'], kind_free_text='explicit-state BFS over public-API actions on pickled real Sampler states with structural state hashing'),
            dict(name='crashmc', path='nvmc/crashmc.py', serves_properties=['C06'], kind_free_text='strace-recorded write path replayed into a file-system model; every syscall boundary and page-torn write enumerated as a crash point; real SIGKILL conformance'),
            dict(name='boundmc', path='nvmc/boundmc.py', serves_properties=['C07','C09','C13'], kind_free_text='operation-history BFS on real bound objects with scripted GMM seeds'),
            dict(name='envmc', path='nvmc/envmc.py', serves_properties=['C08','C14','C16'], kind_free_text='exhaustive enumeration of scripted random-generator answers driving the real sampling code'),
            dict(name='enum', path='nvmc/props_e.py', serves_properties=['C15','C16'], kind_free_text='bounded-exhaustive declaration programs / float neighbourhoods against a reference interpreter'),
        ],
        checks=checks,
        not_applicable=na,
        notes='See /verif/DESIGN.md. Known findings: /verif/known_findings.json. Seeded mutants: /verif/seeded/.')
    with open(os.path.join(HERE, 'MANIFEST.json'), 'w') as f:
        json.dump(man, f, indent=1)
    print('wrote MANIFEST.json with', len(checks), 'checks;', len(na), 'not applicable')

if __name__ == '__main__':
    main()
